/-
The statuses of the intermediate `ParseTokens` calls (`trace`) of the call-by-call protocol are
those the delivery model records (C13, third component of `StepwiseIsRun`).

The abstract views of Proofs/ParseChunks forget the piece boundaries, so this part runs on the
concrete interpreter: a run on a state with pieces still to come (`fut = c :: fut'`) is split at the
first delivery into the run on the same state without future pieces (`PState.base` — what one
`ParseTokens` call executes) and the run of the program it rests in on the state after the delivery.
-/
import ZygoVerif.Proofs.Stepwise
set_option linter.unusedSimpArgs false
set_option linter.unusedVariables false
namespace ZygoVerif.Parser
open ZygoVerif.Lexer

/-- the state one `ParseTokens` call works on: no future pieces, nothing recorded -/
def PState.base (s : PState) : PState := { lex := s.lex, exprs := s.exprs }

/-- put the future pieces, the end mark and the recorded statuses of `s` back -/
def PState.restore (s s1 : PState) : PState := { s1 with fut := s.fut, eof := s.eof, trace := s.trace }

theorem PState.restore_base (s : PState) : s.restore s.base = s := by cases s; rfl

theorem PState.base_restore (s s1 : PState) (h1 : s1.fut = []) (h2 : s1.eof = false) (h3 : s1.trace = []) :
    (s.restore s1).base = s1 := by
  cases s1; simp_all [PState.base, PState.restore]

theorem PState.base_size_le (s : PState) : s.base.size ≤ s.size := by
  simp [PState.size, PState.base, PState.runes]
  omega

/-! ### the measure of the reading loops -/

theorem size_step (s : PState) (c : Char) (l l' : LexState)
    (hr : readRune s.lex (s.lex.next.length + 1) = some (c, l)) (hst : l.step c = .ok l') :
    ({ s with lex := l' } : PState).size < s.size ∧ Inv ({ s with lex := l' } : PState) ∧
      l'.finished = s.lex.finished := by
  obtain ⟨hp, hc, hs, hn, hfin⟩ := readRune_some _ _ _ _ hr
  obtain ⟨h1, h2, h3, h4⟩ := (step_fields l c).1 l' hst
  have hrunes : s.runes = c :: (l.pending ++ s.fut.flatten) := by
    rw [runes_of_pending, hp]; rfl
  have h0 : s.size = (l.pending ++ s.fut.flatten).length + 1 + s.lex.next.length + s.fut.length := by
    simp [PState.size, hrunes]
  have hpend : l'.pending = l.pending := by simp [LexState.pending, h2, h3]
  have hnew : ({ s with lex := l' } : PState).size =
      (l.pending ++ s.fut.flatten).length + l.next.length + s.fut.length := by
    simp [PState.size, runes_of_pending, hpend, h3]
  refine ⟨by omega, by simp [Inv, h2, hs], h4.trans hfin⟩

theorem size_deliver (s : PState) (p : List Char) (fut : List (List Char)) (st : Status)
    (hi : Inv s) (hp : s.lex.pending = []) (hfut : s.fut = p :: fut) :
    (s.deliver p fut st).size < s.size ∧ Inv (s.deliver p fut st) := by
  obtain ⟨a1, a2, a3, a4, a5, a6, a7⟩ := deliver_drained s p fut st hi hp hfut
  have hrunes : s.runes = p ++ fut.flatten := by simp [runes_of_pending, hp, hfut]
  have h0 : s.size = (p ++ fut.flatten).length + s.lex.next.length + (fut.length + 1) := by
    simp [PState.size, hrunes, hfut]
  have h1 : (s.deliver p fut st).size = (p ++ fut.flatten).length + s.lex.next.length + fut.length := by
    simp [PState.size, runes_of_pending, a1, a4, a6]
  exact ⟨by omega, a3⟩

theorem inv_isNone (s : PState) (hi : Inv s) : s.lex.stream.isNone = false := by
  unfold Inv at hi
  cases h : s.lex.stream <;> simp_all

/-! ### the fuel of the reading loops does not matter once it exceeds the measure -/

theorem peekWaitRun_fuel (b : Bool) (n : Nat) : ∀ (f1 f2 : Nat) (s : PState), Inv s → s.size < f1 → s.size < f2 →
    peekWaitRun b n f1 s = peekWaitRun b n f2 s := by
  intro f1
  induction f1 with
  | zero => intro f2 s _ h; omega
  | succ m ih =>
    intro f2 s hi h1 h2
    cases f2 with
    | zero => omega
    | succ k =>
      rw [peekWaitRun, peekWaitRun]
      simp only [inv_isNone s hi, Bool.false_and, Bool.false_eq_true, ↓reduceIte]
      cases hh : (if n < s.lex.tokens.length then s.lex.tokens.head? else none) with
      | some t => rfl
      | none =>
        simp only
        cases hr : readRune s.lex (s.lex.next.length + 1) with
        | some cl =>
          obtain ⟨c, l⟩ := cl
          simp only
          cases hst : l.step c with
          | ok l' =>
            obtain ⟨z1, z2, _⟩ := size_step s c l l' hr hst
            exact ih k _ z2 (by omega) (by omega)
          | err e l' => rfl
        | none =>
          have hp := readRune_none _ _ (Nat.lt_succ_self _) hr
          simp only
          cases hfut : s.fut with
          | nil => rfl
          | cons p fut =>
            obtain ⟨z1, z2⟩ := size_deliver s p fut .more hi hp hfut
            exact ih k _ z2 (by omega) (by omega)

theorem topGetRun_fuel : ∀ (f1 f2 : Nat) (s : PState), Inv s → s.size < f1 → s.size < f2 →
    topGetRun f1 s = topGetRun f2 s := by
  intro f1
  induction f1 with
  | zero => intro f2 s _ h; omega
  | succ m ih =>
    intro f2 s hi h1 h2
    cases f2 with
    | zero => omega
    | succ k =>
      rw [topGetRun, topGetRun]
      simp only [inv_isNone s hi, Bool.false_and, Bool.false_eq_true, ↓reduceIte]
      cases htk : s.lex.tokens with
      | cons t ts => rfl
      | nil =>
        simp only
        cases hr : readRune s.lex (s.lex.next.length + 1) with
        | some cl =>
          obtain ⟨c, l⟩ := cl
          simp only
          cases hst : l.step c with
          | ok l' =>
            obtain ⟨z1, z2, _⟩ := size_step s c l l' hr hst
            exact ih k _ z2 (by omega) (by omega)
          | err e l' => rfl
        | none =>
          have hp := readRune_none _ _ (Nat.lt_succ_self _) hr
          simp only
          cases hfut : s.fut with
          | nil => rfl
          | cons p fut =>
            simp only
            obtain ⟨z1, z2⟩ := size_deliver s p fut (if inLiteral s.lex.toLexCore = true then Status.more else Status.done) hi hp hfut
            exact ih k _ z2 (by omega) (by omega)

/-! ### a run without future pieces delivers nothing -/

def PeekOut.st : PeekOut → PState
  | .tok _ s => s
  | .stop _ s => s

def TopOut.st : TopOut → PState
  | .tok _ s => s
  | .finished _ s => s

/-- fields a run without future pieces leaves alone -/
def Ghost (s s1 : PState) : Prop :=
  s1.fut = [] ∧ s1.eof = s.eof ∧ s1.trace = s.trace ∧ s1.lex.finished = s.lex.finished

theorem Ghost.refl (s : PState) (h : s.fut = []) : Ghost s s := ⟨h, rfl, rfl, rfl⟩

theorem Ghost.trans {a b c : PState} (h1 : Ghost a b) (h2 : Ghost b c) : Ghost a c :=
  ⟨h2.1, h2.2.1.trans h1.2.1, h2.2.2.1.trans h1.2.2.1, h2.2.2.2.trans h1.2.2.2⟩

theorem peekWaitRun_ghost (b : Bool) (n : Nat) : ∀ (fuel : Nat) (s : PState), s.fut = [] →
    Ghost s (peekWaitRun b n fuel s).st := by
  intro fuel
  induction fuel with
  | zero => intro s h; exact Ghost.refl s h
  | succ m ih =>
    intro s hfut
    rw [peekWaitRun]
    split
    · simp only [hfut]
      split <;> exact Ghost.refl s hfut
    · cases hh : (if n < s.lex.tokens.length then s.lex.tokens.head? else none) with
      | some t => exact Ghost.refl s hfut
      | none =>
        simp only
        cases hr : readRune s.lex (s.lex.next.length + 1) with
        | some cl =>
          obtain ⟨c, l⟩ := cl
          have hfin := (readRune_some _ _ _ _ hr).2.2.2.2
          simp only
          cases hst : l.step c with
          | ok l' =>
            have h4 := ((step_fields l c).1 l' hst).2.2.2
            have g1 : Ghost s ({ s with lex := l' } : PState) := ⟨hfut, rfl, rfl, h4.trans hfin⟩
            exact g1.trans (ih _ hfut)
          | err e l' =>
            have h4 := ((step_fields l c).2 e l' hst).2.2.2
            exact ⟨hfut, rfl, rfl, h4.trans hfin⟩
        | none =>
          simp only [hfut]
          split <;> exact Ghost.refl s hfut

theorem topGetRun_ghost : ∀ (fuel : Nat) (s : PState), s.fut = [] → Ghost s (topGetRun fuel s).st := by
  intro fuel
  induction fuel with
  | zero => intro s h; exact Ghost.refl s h
  | succ m ih =>
    intro s hfut
    rw [topGetRun]
    simp only [hfut]
    split
    · exact Ghost.refl s hfut
    · cases htk : s.lex.tokens with
      | cons t ts => exact ⟨rfl, rfl, rfl, rfl⟩
      | nil =>
        simp only
        cases hr : readRune s.lex (s.lex.next.length + 1) with
        | some cl =>
          obtain ⟨c, l⟩ := cl
          have hfin := (readRune_some _ _ _ _ hr).2.2.2.2
          simp only
          cases hst : l.step c with
          | ok l' =>
            have h4 := ((step_fields l c).1 l' hst).2.2.2
            have g1 : Ghost s ({ lex := l', eof := s.eof, exprs := s.exprs, trace := s.trace } : PState) :=
              ⟨rfl, rfl, rfl, h4.trans hfin⟩
            exact g1.trans (ih _ rfl)
          | err e l' =>
            have h4 := ((step_fields l c).2 e l' hst).2.2.2
            exact ⟨rfl, rfl, rfl, h4.trans hfin⟩
        | none => exact Ghost.refl s hfut

theorem run_ghost {α : Type} (p : Prog α) : ∀ (s : PState), s.fut = [] → Ghost s (run p s).2 := by
  induction p with
  | pure a => intro s h; exact Ghost.refl s h
  | fail => intro s h; exact Ghost.refl s h
  | waitPeek n k ih =>
    intro s h
    have g := peekWaitRun_ghost false n (s.size + 1) s h
    simp only [run]
    cases hp : peekWaitRun false n (s.size + 1) s with
    | tok t s' => rw [hp] at g; exact g.trans (ih t s' g.1)
    | stop st s' => rw [hp] at g; exact g
  | signPeek k ih =>
    intro s h
    have g := peekWaitRun_ghost true 0 (s.size + 1) s h
    simp only [run]
    cases hp : peekWaitRun true 0 (s.size + 1) s with
    | tok t s' => rw [hp] at g; exact g.trans (ih t s' g.1)
    | stop st s' => rw [hp] at g; exact g
  | peekAt n k ih =>
    intro s h
    have g := peekWaitRun_ghost false n (s.size + 1) s h
    simp only [run]
    cases hp : peekWaitRun false n (s.size + 1) s with
    | tok t s' =>
      rw [hp] at g
      simp only
      cases s'.lex.tokens[n]? with
      | some t' => exact g.trans (ih t' s' g.1)
      | none => exact g
    | stop st s' => rw [hp] at g; exact g
  | getTok k ih =>
    intro s h
    have g := peekWaitRun_ghost false 0 (s.size + 1) s h
    simp only [run]
    cases hp : peekWaitRun false 0 (s.size + 1) s with
    | tok t s' =>
      rw [hp] at g
      have g2 : Ghost s ({ s' with lex := { s'.lex with tokens := s'.lex.tokens.tail } } : PState) := g
      exact g2.trans (ih t _ g.1)
    | stop st s' => rw [hp] at g; exact g
  | topGet k ih =>
    intro s h
    have g := topGetRun_ghost (s.size + 1) s h
    simp only [run]
    cases hp : topGetRun (s.size + 1) s with
    | tok t s' => rw [hp] at g; exact g.trans (ih (some t) s' g.1)
    | finished st s' =>
      rw [hp] at g
      cases st with
      | done => exact g.trans (ih none s' g.1)
      | more => exact g
      | err => exact g
  | pushTok t k ih =>
    intro s h
    simp only [run]
    have g2 : Ghost s ({ s with lex := { s.lex with tokens := t :: s.lex.tokens } } : PState) := ⟨h, rfl, rfl, rfl⟩
    exact g2.trans (ih _ h)
  | pushExpr e k ih =>
    intro s h
    simp only [run]
    have g2 : Ghost s ({ s with exprs := s.exprs ++ [e] } : PState) := ⟨h, rfl, rfl, rfl⟩
    exact g2.trans (ih _ h)

/-! ### splitting a reading loop at the first delivery -/

theorem peekWaitRun_split (b : Bool) (n : Nat) (c' : List Char) (fut' : List (List Char)) :
    ∀ (fuel : Nat) (s : PState), Inv s → s.size < fuel → s.lex.finished = false → s.fut = c' :: fut' →
    ∀ out, peekWaitRun b n fuel s.base = out →
    peekWaitRun b n fuel s = match out with
      | .tok t s1 => .tok t (s.restore s1)
      | .stop .more s1 =>
        peekWaitRun b n (((s.restore s1).deliver c' fut' .more).size + 1) ((s.restore s1).deliver c' fut' .more)
      | .stop st s1 => .stop st (s.restore s1) := by
  intro fuel
  induction fuel with
  | zero => intro s _ h; omega
  | succ m ih =>
    intro s hi hsz hfin hfut out hout
    rw [peekWaitRun] at hout
    conv => lhs; rw [peekWaitRun]
    have hn := inv_isNone s hi
    dsimp (config := { instances := true }) only [PState.base] at hout
    simp only [hn, Bool.false_and, Bool.false_eq_true, ↓reduceIte] at hout
    simp only [hn, Bool.false_and, Bool.false_eq_true, ↓reduceIte]
    cases hh : (if n < s.lex.tokens.length then s.lex.tokens.head? else none) with
    | some t =>
      rw [hh] at hout
      simp only at hout
      subst hout
      simp only
      exact congrArg _ (PState.restore_base s).symm
    | none =>
      rw [hh] at hout
      simp only at hout ⊢
      cases hr : readRune s.lex (s.lex.next.length + 1) with
      | some cl =>
        obtain ⟨c, l⟩ := cl
        rw [hr] at hout
        simp only at hout ⊢
        cases hst : l.step c with
        | ok l' =>
          rw [hst] at hout
          simp only at hout ⊢
          obtain ⟨z1, z2, z3⟩ := size_step s c l l' hr hst
          exact ih ({ s with lex := l' }) z2 (by omega) (z3.trans hfin) hfut out hout
        | err e l' =>
          rw [hst] at hout
          simp only at hout
          subst hout
          rfl
      | none =>
        rw [hr] at hout
        have hp := readRune_none _ _ (Nat.lt_succ_self _) hr
        simp only [hfin, Bool.and_false, Bool.false_eq_true, ↓reduceIte] at hout
        subst hout
        simp only [hfut]
        obtain ⟨z1, z2⟩ := size_deliver s c' fut' .more hi hp hfut
        have hrb : s.restore { lex := s.lex, exprs := s.exprs } = s := PState.restore_base s
        rw [hrb]
        exact peekWaitRun_fuel b n _ _ _ z2 (by omega) (Nat.lt_succ_self _)

theorem topGetRun_split (c' : List Char) (fut' : List (List Char)) :
    ∀ (fuel : Nat) (s : PState), Inv s → s.size < fuel → s.lex.finished = false → s.fut = c' :: fut' →
    ∀ out, topGetRun fuel s.base = out →
    topGetRun fuel s = match out with
      | .tok t s1 => .tok t (s.restore s1)
      | .finished .err s1 => .finished .err (s.restore s1)
      | .finished st s1 =>
        topGetRun (((s.restore s1).deliver c' fut' st).size + 1) ((s.restore s1).deliver c' fut' st) := by
  intro fuel
  induction fuel with
  | zero => intro s _ h; omega
  | succ m ih =>
    intro s hi hsz hfin hfut out hout
    rw [topGetRun] at hout
    conv => lhs; rw [topGetRun]
    have hn := inv_isNone s hi
    dsimp (config := { instances := true }) only [PState.base] at hout
    simp only [hn, Bool.false_and, Bool.false_eq_true, ↓reduceIte] at hout
    simp only [hn, Bool.false_and, Bool.false_eq_true, ↓reduceIte]
    cases htk : s.lex.tokens with
    | cons t ts =>
      rw [htk] at hout
      simp only at hout
      subst hout
      rfl
    | nil =>
      rw [htk] at hout
      simp only at hout ⊢
      cases hr : readRune s.lex (s.lex.next.length + 1) with
      | some cl =>
        obtain ⟨c, l⟩ := cl
        rw [hr] at hout
        simp only at hout ⊢
        cases hst : l.step c with
        | ok l' =>
          rw [hst] at hout
          simp only at hout ⊢
          obtain ⟨z1, z2, z3⟩ := size_step s c l l' hr hst
          exact ih ({ s with lex := l' }) z2 (by omega) (z3.trans hfin) hfut out hout
        | err e l' =>
          rw [hst] at hout
          simp only at hout
          subst hout
          rfl
      | none =>
        rw [hr] at hout
        have hp := readRune_none _ _ (Nat.lt_succ_self _) hr
        have hrb : s.restore { lex := s.lex, exprs := s.exprs } = s := PState.restore_base s
        cases hl : inLiteral s.lex.toLexCore with
        | true =>
          simp only [hl, ↓reduceIte] at hout
          subst hout
          simp only [hfut, hl, ↓reduceIte]
          obtain ⟨z1, z2⟩ := size_deliver s c' fut' .more hi hp hfut
          rw [hrb]
          exact topGetRun_fuel _ _ _ z2 (by omega) (Nat.lt_succ_self _)
        | false =>
          simp only [hl, Bool.false_eq_true, ↓reduceIte] at hout
          subst hout
          simp only [hfut, hl, Bool.false_eq_true, ↓reduceIte]
          obtain ⟨z1, z2⟩ := size_deliver s c' fut' .done hi hp hfut
          rw [hrb]
          exact topGetRun_fuel _ _ _ z2 (by omega) (Nat.lt_succ_self _)

end ZygoVerif.Parser
