/-
C02, execution half — F2: `and`/`or`, `newScope`, `letseq`, `let`, array literals next to user
functions (the Fc forms ported to the relation `RelF`).
-/
import ZygoVerif.Proofs.SimF2
set_option linter.unusedSimpArgs false
set_option linter.unusedVariables false
namespace ZygoVerif.Sim
open ZygoVerif.Core ZygoVerif.VM

/-! ## Simulation statements for code that leaves no value / a list of values -/

/-- code that leaves no value (the bindings of `letseq`) -/
def SimFU (code : List Instr) (m : Nat → Nat) (s : St) (rs : Ref.St) (env : Nat) (res : Ref.R Unit) : Prop :=
  match res with
  | .ok _ rs' => ∃ (s' : St) (m' : Nat → Nat), ReachX s s' ∧ Moved code.length s s' ∧ RelF m' s' rs' env ∧ MExt s m m'
      ∧ RExt rs rs' ∧ FrameF s s'
  | .err rs' => FailsX s rs'.trace
  | .timeout => True
  | .brk _ _ => False
  | .cont _ _ => False

/-- code that pushes a list of values, first value deepest (the initialisers of `let`, array elements) -/
def SimFL (code : List Instr) (m : Nat → Nat) (s : St) (rs : Ref.St) (env : Nat) (res : Ref.R (List Val)) : Prop :=
  match res with
  | .ok vs' rs' => ∃ (s' : St) (m' : Nat → Nat) (vs : List Val), ReachX s s' ∧ fnOf s' s'.curfunc = fnOf s s.curfunc
      ∧ s'.pc = s.pc + (code.length : Int) ∧ s'.data = vs.reverse.map some ++ s.data ∧ vs' = vs.map (trf m')
      ∧ RelF m' s' rs' env ∧ MExt s m m' ∧ RExt rs rs' ∧ FrameF s s' ∧ ∀ v ∈ vs, VOk m' s' rs' v
  | .err rs' => FailsX s rs'.trace
  | .timeout => True
  | .brk _ _ => False
  | .cont _ _ => False

def FClaimS (n : Nat) : Prop :=
  ∀ fnOk self isOr es, FfList fnOk self es = true → ∀ isFn c gs r, (compileSC isFn c es).run gs = .ok r → FnameOk self c →
    ∀ m s rs env pre post, RelF m s rs env → (fnOk = true → GenOk gs r.2 s) → Seg s pre (asmSC isOr r.1) post →
      SimF (asmSC isOr r.1) m s rs env (Ref.evalAndOr n isOr es env rs)

def FClaimN (n : Nat) : Prop :=
  ∀ fnOk self es, es ≠ [] → FfList fnOk self es = true → ∀ isFn c oldtail gs r,
    (compileNewScope isFn c oldtail es).run gs = .ok r → FnameOk self c →
    ∀ m s rs env pre post, RelF m s rs env → (fnOk = true → GenOk gs r.2 s) → Seg s pre r.1.1 post →
      SimF r.1.1 m s rs env (Ref.evalBegin n es env rs)

def FClaimL (n : Nat) : Prop :=
  ∀ fnOk self bs, FfBinds fnOk self bs = true → ∀ isFn c gs r, (compileBinds isFn c true bs).run gs = .ok r → FnameOk self c →
    ∀ m s rs env pre post, RelF m s rs env → (fnOk = true → GenOk gs r.2 s) → Seg s pre r.1.1 post →
      SimFU r.1.1 m s rs env (Ref.evalLetSeq n bs env rs)

def FClaimP (n : Nat) : Prop :=
  ∀ fnOk self bs, FfBinds fnOk self bs = true → ∀ isFn c gs r, (compileBinds isFn c false bs).run gs = .ok r → FnameOk self c →
    ∀ m s rs env pre post, RelF m s rs env → (fnOk = true → GenOk gs r.2 s) → Seg s pre r.1.1 post →
      SimFL r.1.1 m s rs env (Ref.evalList n (bs.map (·.2)) env rs)

def FClaimV (n : Nat) : Prop :=
  ∀ fnOk self es, FfList fnOk self es = true → ∀ isFn c gs r, (compileAll isFn c es).run gs = .ok r → FnameOk self c →
    ∀ m s rs env pre post, RelF m s rs env → (fnOk = true → GenOk gs r.2 s) → Seg s pre r.1.1 post →
      SimFL r.1.1 m s rs env (Ref.evalList n es env rs)

/-! ## Scoped code -/

/-- `let`/`letseq`/`newScope`: `addScope`, the inner code in the fresh scope, `removeScope` -/
theorem SimF.scoped {inner pre post : List Instr} {m : Nat → Nat} {s : St} {rs : Ref.St} {env : Nat} {res : Ref.R Val}
    (h : Seg s pre ([.addScope] ++ inner ++ [.removeScope]) post) (hrel : RelF m s rs env)
    (hin : SimF inner m s.pushScope (Ref.newFrame rs env).2 rs.frames.length res) :
    SimF ([.addScope] ++ inner ++ [.removeScope]) m s rs env res := by
  obtain ⟨r1, m1⟩ := glue_addScope h
  cases res with
  | ok v rs3 =>
    obtain ⟨s3, m3, w, r, l, hv, rel3, hm3, ext3, fr3, hcl⟩ := hin
    have l' : Lands (1 + inner.length) w s s3 := m1.lands l
    have hlin3 : s3.linear = some s.scopes.length :: s.linear := fr3.linear
    obtain ⟨r4, l4⟩ := glue_removeScope h l' hlin3
    have hflags : ∀ i, i < s.scopes.length → isFnScope s3 i = isFnScope s i := fun i hi => by
      rw [fr3.flags i (by show i < (s.scopes ++ [_]).length; simp; omega), isFnScope_pushScope, if_pos hi]
    have hfl : s.fns.length ≤ s3.fns.length := fr3.fnsLen
    have hfo : ∀ id, id < s.fns.length → fnOf s3 id = fnOf s id := fun id hid => fr3.fns id hid
    have hext : FramesExt rs rs3 := (FramesExt.newFrame rs env).trans ext3.1
    have hframe : FrameF s s3.popScope :=
      ⟨⟨by show s3.linear.tail = _; rw [hlin3]; rfl, fr3.curfunc, fr3.addr, fr3.susp, hfl, hfo, fr3.loopsLen, fr3.loops⟩,
        Nat.le_trans (by show s.scopes.length ≤ (s.scopes ++ [_]).length; simp) fr3.scLen, hflags⟩
    refine ⟨_, m3, w, ((r1.toX.trans r).trans r4.toX), l4, hv,
      hrel.back rel3 rfl rfl rfl rfl (by show s3.linear.tail = _; rw [hlin3]; rfl) fr3.curfunc hflags hfl hfo hext
        ⟨fr3.loopsLen, fr3.loops⟩,
      hm3, ⟨hext, ext3.2⟩, hframe,
      ValIn.mono hcl (fun id hg => hg.mono (FnsKeep.of_fns_eq rfl) (Nat.le_refl _) (fun _ _ => rfl) (RExt.refl _) rfl)⟩
  | err rs3 => exact (FailsX.of_reach r1.toX hin)
  | timeout => trivial
  | brk l rs3 => exact hin
  | cont l rs3 => exact hin

/-! ## The relation does not see the order of the bindings inside a frame -/

theorem withVars_frames_get (rs : Ref.St) (fr : Nat) (fr0 : Ref.Frame) (va : List (String × Val)) (i : Nat) :
    (withVars rs fr fr0 va).frames[i]? = if fr = i ∧ fr < rs.frames.length then some { fr0 with vars := va } else rs.frames[i]? := by
  simp only [withVars, List.getElem?_set]
  by_cases hi : fr = i
  · subst hi
    by_cases hlt : fr < rs.frames.length
    · simp [hlt]
    · simp [hlt, List.getElem?_eq_none (Nat.le_of_not_lt hlt)]
  · simp [hi]

theorem RelF.withVars_congr {m : Nat → Nat} {s : St} {rs : Ref.St} {fr : Nat} {fr0 : Ref.Frame}
    {va vb : List (String × Val)} {env : Nat} (h : RelF m s (withVars rs fr fr0 vb) env) (hfr : rs.frames[fr]? = some fr0)
    (hl : ∀ y, va.lookup y = vb.lookup y) : RelF m s (withVars rs fr fr0 va) env := by
  have hlt := lt_of_getElem?_some hfr
  have hext : ∀ (i : Nat) (f : Ref.Frame), (withVars rs fr fr0 vb).frames[i]? = some f →
      ∃ f' : Ref.Frame, (withVars rs fr fr0 va).frames[i]? = some f' ∧ f'.parent = f.parent := by
    intro i f hf
    rw [withVars_frames_get] at hf ⊢
    by_cases hc : fr = i ∧ fr < rs.frames.length
    · rw [if_pos hc] at hf ⊢
      injection hf with hf; subst hf
      exact ⟨_, rfl, rfl⟩
    · rw [if_neg hc] at hf ⊢
      exact ⟨f, hf, rfl⟩
  have hrext : RExt (withVars rs fr fr0 vb) (withVars rs fr fr0 va) := ⟨hext, fun i c hc => hc⟩
  have hgood : ∀ j, GoodFn m s (withVars rs fr fr0 vb) j → GoodFn m s (withVars rs fr fr0 va) j := fun j hj =>
    hj.mono (FnsKeep.of_fns_eq rfl) (Nat.le_refl _) (fun _ _ => rfl) hrext rfl
  have hkey : ∀ i y, ((withVars rs fr fr0 va).frames.getD i {}).vars.lookup y
      = ((withVars rs fr fr0 vb).frames.getD i {}).vars.lookup y := by
    intro i y
    simp only [List.getD_eq_getElem?_getD, withVars_frames_get]
    by_cases hc : fr = i ∧ fr < rs.frames.length
    · simp only [if_pos hc, Option.getD_some, hl y]
    · simp only [if_neg hc]
  obtain ⟨k, hc, hfc⟩ := h.ctx
  obtain ⟨f0, hf0, hp0, hfl0⟩ := h.root0
  obtain ⟨f0', hf0', hp0'⟩ := hext 0 f0 hf0
  have hlenb : (withVars rs fr fr0 vb).frames.length = (withVars rs fr fr0 va).frames.length := by
    simp [withVars]
  refine ⟨by rw [h.len, hlenb], fun i x => by rw [hkey]; exact h.vars i x, ⟨f0', hf0', hp0'.trans hp0, hfl0⟩, ?_, h.bottom,
    ⟨k, hc.congr hext (fun _ _ => rfl), ?_⟩, h.fscopes, h.heap, h.trace, ?_,
    fun i x v hv => ValIn.mono (h.vok i x v hv) hgood, HeapIn.mono h.hok hgood,
    h.lz.mono (FnsKeep.of_fns_eq rfl) (Nat.le_refl _) (fun _ _ => rfl) hrext (fun _ _ => rfl) rfl (by simp [withVars])⟩
  · intro i f hf p hp
    rw [withVars_frames_get] at hf
    by_cases hc' : fr = i ∧ fr < rs.frames.length
    · rw [if_pos hc'] at hf
      injection hf with hf; subst hf
      exact h.par i { fr0 with vars := vb } (by rw [withVars_frames_get, if_pos hc']) p hp
    · rw [if_neg hc'] at hf
      exact h.par i f (by rw [withVars_frames_get, if_neg hc']; exact hf) p hp
  · exact hfc.transfer (s := s) (s' := s) (withVars rs fr fr0 vb).frames.length (fun _ _ => rfl) hext (FnsKeep.of_fns_eq rfl)
      (Nat.le_of_eq h.len) (Nat.le_refl _) (fun e he => Nat.lt_trans (hc.k_lt e he) hc.lt) rfl
  · intro name hn
    exact ⟨by rw [hkey]; exact (h.globals name hn).1, fun i hi => by rw [hkey]; exact (h.globals name hn).2 i hi⟩

/-! ## The parallel bindings of `let` -/

/-- the reference's version of a list of (name, VM value) pairs -/
def trPairs (m : Nat → Nat) (ps : List (String × Val)) : List (String × Val) := ps.map (fun p => (p.1, trf m p.2))

theorem vm_defineAllF {m : Nat → Nat} : ∀ (ps : List (String × Val)) (s : St) (rs : Ref.St) (fr : Nat) (P Q : List Instr)
    (D : List (Option Val)), (∀ p ∈ ps, okName p.1 = true) → (∀ p ∈ ps, VOk m s rs p.2) →
    Seg s P (ps.map (fun p => Instr.popStackPutEnv p.1)) Q → s.data = ps.map (fun p => some p.2) ++ D → RelF m s rs fr →
    match defineAll rs fr (trPairs m ps) with
    | some rs' => ∃ s', Reach ps.length 1 s s' ∧ fnOf s' s'.curfunc = fnOf s s.curfunc
        ∧ s'.pc = s.pc + (ps.length : Int) ∧ s'.data = D ∧ RelF m s' rs' fr ∧ RExt rs rs' ∧ FrameF s s'
    | none => Fails ps.length s rs.trace
  | [], s, rs, fr, P, Q, D, _, _, _, hd, hrel => by
    simp only [trPairs, List.map_nil, defineAll]
    exact ⟨s, Reach.refl s |>.mono (Nat.le_refl _) (by simp), rfl, by simp, by simpa using hd, hrel, RExt.refl rs,
      FrameF.refl s⟩
  | (x, v) :: ps, s, rs, fr, P, Q, D, hok, hcl, hseg, hd, hrel => by
    simp only [List.map_cons] at hseg hd
    have a1 : At s P (.popStackPutEnv x) (ps.map (fun p => Instr.popStackPutEnv p.1) ++ Q) := hseg.head
    have hp := psp_stepF a1 hd hrel (hok (x, v) List.mem_cons_self) (hcl (x, v) List.mem_cons_self)
    simp only [trPairs, List.map_cons, defineAll]
    cases hdef : Ref.define rs fr x (trf m v) with
    | none =>
      rw [hdef] at hp
      exact Fails.mono hp (by simp)
    | some rs1 =>
      rw [hdef] at hp
      obtain ⟨r1, rel1, ext1⟩ := hp
      simp only
      have hfr01 : FrameF s ((s.jmp (s.pc + 1) (ps.map (fun p => some p.2) ++ D)).bind fr x v) :=
        (FrameF.jmp _ _ _).trans (FrameF.bind _ _ _ _)
      have hseg1 : Seg ((s.jmp (s.pc + 1) (ps.map (fun p => some p.2) ++ D)).bind fr x v) (P ++ [.popStackPutEnv x])
          (ps.map (fun p => Instr.popStackPutEnv p.1)) Q :=
        hseg.move (s' := (s.jmp (s.pc + 1) (ps.map (fun p => some p.2) ++ D)).bind fr x v) rfl (by simp)
          (by show s.pc + 1 = _; rw [hseg.pc]; simp)
      have ih := vm_defineAllF ps _ rs1 fr _ Q D (fun p hp => hok p (List.mem_cons_of_mem _ hp))
        (fun p hp => VOk.ext (hcl p (List.mem_cons_of_mem _ hp)) hfr01 ext1 (MExt.refl _ _)) hseg1 rfl rel1
      have ih' : (match defineAll rs1 fr (trPairs m ps) with
          | some rs' => ∃ s', Reach ps.length 1 ((s.jmp (s.pc + 1) (ps.map (fun p => some p.2) ++ D)).bind fr x v) s'
              ∧ fnOf s' s'.curfunc = fnOf s s.curfunc ∧ s'.pc = s.pc + 1 + (ps.length : Int) ∧ s'.data = D
              ∧ RelF m s' rs' fr ∧ RExt rs1 rs' ∧ FrameF ((s.jmp (s.pc + 1) (ps.map (fun p => some p.2) ++ D)).bind fr x v) s'
          | none => Fails ps.length ((s.jmp (s.pc + 1) (ps.map (fun p => some p.2) ++ D)).bind fr x v) rs1.trace) := ih
      unfold trPairs at ih'
      cases hda : defineAll rs1 fr (ps.map (fun p => (p.1, trf m p.2))) with
      | none =>
        rw [hda] at ih'
        rw [ref_define_trace hdef] at ih'
        exact (Fails.of_reach r1 ih').mono (by simp; omega)
      | some rs' =>
        rw [hda] at ih'
        obtain ⟨s', r2, hfn, hpc, hdata, rel', ext', fr'⟩ := ih'
        refine ⟨s', (r1.trans r2).mono (by simp; omega) (by simp), hfn, ?_, hdata, rel', ext1.trans ext',
          hfr01.trans fr'⟩
        rw [hpc]
        simp only [List.length_cons]; push_cast; omega

/-! ## The inductive steps for the list forms -/

theorem fclaimS_succ {n : Nat} (hE : FClaimE n) (hS : FClaimS n) : FClaimS (n + 1) := by
  intro fnOk self isOr es hes isFn c gs r hc hfn m s rs env pre post hrel hgen hseg
  match es with
  | [] =>
    rw [compileSC] at hc; simp only [g_pure_ok] at hc; subst hc
    rw [Ref.evalAndOr]
    · simp only [asmSC] at hseg ⊢
      exact simF_push _ (fun _ _ _ => rfl) hrel hseg
    · omega
  | [e] =>
    rw [FfList] at hes
    simp only [Bool.and_eq_true] at hes
    rw [compileSC] at hc
    simp only [g_bind_ok, g_pure_ok] at hc
    obtain ⟨ra, gs1, ha, rfl⟩ := hc
    rw [Ref.evalAndOr]
    simp only [asmSC] at hseg ⊢
    exact hE fnOk self e hes.1 isFn c gs (ra, gs1) ha hfn m s rs env pre post hrel hgen hseg
  | e :: e' :: es' =>
    rw [FfList] at hes
    simp only [Bool.and_eq_true] at hes
    rw [compileSC] at hc
    · simp only [g_bind_ok, g_pure_ok] at hc
      obtain ⟨rest, gs1, hrest, ra, gs2, ha, rfl⟩ := hc
      have hk1 := compileSC_keep_Ff hes.2 hrest hfn
      have hk2 := compile_keep_Ff hes.1 ha hfn
      have hlen := compileSC_length hrest
      obtain ⟨r0, rs0, hr0⟩ : ∃ r0 rs0, rest = r0 :: rs0 := by
        cases rest with
        | nil => simp at hlen
        | cons r0 rs0 => exact ⟨r0, rs0, rfl⟩
      have hasm : asmSC isOr (ra.1 :: rest)
          = ra.1 ++ [.dup, .branch isOr ((asmSC isOr rest).length + 2), .pop] ++ asmSC isOr rest := by
        rw [hr0]; simp only [asmSC]
      simp only [hasm] at hseg hgen ⊢
      rw [Ref.evalAndOr]
      · have ih := hE fnOk self e hes.1 isFn _ gs1 (ra, gs2) ha hfn m s rs env pre _ hrel
          (fun h => (hgen h).rest hk1.1) (hseg.refocus (c' := ra.1)
          (post' := [.dup, .branch isOr ((asmSC isOr rest).length + 2), .pop] ++ asmSC isOr rest ++ post) (by simp))
        cases h1 : Ref.eval n e env rs with
        | ok v1 rs1 =>
          rw [h1] at ih
          obtain ⟨s1, m1, w1, r1, l1, hv1, rel1, hm1, ext1, fr1, hcl1⟩ := ih
          simp only
          have htr : truthy v1 = truthy w1 := by rw [hv1]; exact truthy_tr m1 id id w1
          by_cases ht : (truthy w1 == isOr) = true
          · rw [htr, if_pos ht]
            obtain ⟨r2, l2⟩ := glue_sc_stop hseg l1 (by simpa using ht)
            exact ⟨_, m1, w1, (r1.trans r2.toX), l2, hv1, rel1.jmp _ _, hm1, ext1, fr1.trans (FrameF.jmp _ _ _),
              VOk.ext hcl1 (FrameF.jmp _ _ _) (RExt.refl _) (MExt.refl _ _)⟩
          · rw [htr, if_neg ht]
            obtain ⟨r2, m2⟩ := glue_sc_go hseg l1 (by simpa using ht)
            have ih2 := hS fnOk self isOr (e' :: es') hes.2 isFn c gs (rest, gs1) hrest hfn m1
              (s1.jmp (s1.pc + 3) s.data) rs1 env _ post (rel1.jmp _ _)
              (fun h => ((hgen h).first hk2.1).frame (fr1.toFrame.trans (Frame.jmp s1 (s1.pc + 3) s.data)))
              (hseg.moved m2 (c₁ := ra.1 ++ [.dup, .branch isOr ((asmSC isOr rest).length + 2), .pop])
                (c₂ := asmSC isOr rest) (post' := post) (by simp) (by simp))
            exact SimF.seq (r1.trans r2.toX) m2 hm1 ext1 (fr1.trans (FrameF.jmp _ _ _)) ih2 (by lenarith)
        | err rs1 => rw [h1] at ih; exact SimF.prefix ih (fun _ _ hh => by cases hh)
        | timeout => trivial
        | brk l rs1 => rw [h1] at ih; exact ih.elim
        | cont l rs1 => rw [h1] at ih; exact ih.elim
      · intro hh; cases hh
    · intro hh; cases hh

theorem fclaimN_succ {n : Nat} (hE : FClaimE n) (hN : FClaimN n) : FClaimN (n + 1) := by
  intro fnOk self es hne hes isFn c oldtail gs r hc hfn m s rs env pre post hrel hgen hseg
  match es, hne with
  | [e], _ =>
    rw [FfList] at hes
    simp only [Bool.and_eq_true] at hes
    rw [compileNewScope] at hc
    rw [Ref.evalBegin]
    exact hE fnOk self e hes.1 isFn _ gs r hc hfn m s rs env pre post hrel hgen hseg
  | e :: e' :: es', _ =>
    rw [FfList] at hes
    simp only [Bool.and_eq_true] at hes
    rw [compileNewScope] at hc
    · simp only [g_bind_ok, g_pure_ok] at hc
      obtain ⟨ra, gs1, ha, rb, gs2, hb, rfl⟩ := hc
      have hk1 := compile_keep_Ff hes.1 ha hfn
      have hk2 := compileNewScope_keep_Ff (by simp) hes.2 hb hfn
      simp only at hgen
      rw [Ref.evalBegin]
      · have ih := hE fnOk self e hes.1 isFn _ gs (ra, gs1) ha hfn m s rs env pre ([.pop] ++ rb.1 ++ post) hrel
          (fun h => (hgen h).first hk2.1) (hseg.refocus (by simp))
        cases h1 : Ref.eval n e env rs with
        | ok v1 rs1 =>
          rw [h1] at ih
          obtain ⟨s1, m1, w1, r1, l1, hv1, rel1, hm1, ext1, fr1, hcl1⟩ := ih
          obtain ⟨r2, m2⟩ := glue_pop hseg l1
          have ih2 := hN fnOk self (e' :: es') (by simp) hes.2 isFn c oldtail gs1 (rb, gs2) hb hfn m1
            (s1.jmp (s1.pc + 1) s.data) rs1 env _ post (rel1.jmp _ _)
            (fun h => ((hgen h).rest hk1.1).frame (fr1.toFrame.trans (Frame.jmp s1 (s1.pc + 1) s.data)))
            (hseg.moved m2 (c₁ := ra.1 ++ [.pop]) (c₂ := rb.1) (post' := post) rfl (by simp))
          exact SimF.seq (r1.trans r2.toX) m2 hm1 ext1 (fr1.trans (FrameF.jmp _ _ _)) ih2 (by lenarith)
        | err rs1 => rw [h1] at ih; exact SimF.prefix ih (fun _ _ hh => by cases hh)
        | timeout => trivial
        | brk l rs1 => rw [h1] at ih; exact ih.elim
        | cont l rs1 => rw [h1] at ih; exact ih.elim
      · intro hh; cases hh
    · intro hh; cases hh

theorem fclaimL_succ {n : Nat} (hE : FClaimE n) (hL : FClaimL n) : FClaimL (n + 1) := by
  intro fnOk self bs hbs isFn c gs r hc hfn m s rs env pre post hrel hgen hseg
  match bs with
  | [] =>
    rw [compileBinds] at hc; simp only [g_pure_ok] at hc; subst hc
    rw [Ref.evalLetSeq]
    · exact ⟨s, m, ReachX.refl s, Moved.refl s, hrel, MExt.refl s m, RExt.refl rs, FrameF.refl s⟩
    · omega
  | (x, e) :: bs' =>
    rw [FfBinds] at hbs
    simp only [Bool.and_eq_true] at hbs
    rw [compileBinds] at hc
    simp only [g_bind_ok, g_pure_ok] at hc
    obtain ⟨ra, gs1, ha, rb, gs2, hb, rfl⟩ := hc
    have hk1 := compile_keep_Ff hbs.1.2 ha hfn
    have hk2 := compileBinds_keep_Ff hbs.2 hb hfn
    have hcode : (ra.1 ++ (if True then [Instr.popStackPutEnv x] else []) ++ rb.1)
        = ra.1 ++ [Instr.popStackPutEnv x] ++ rb.1 := by simp
    simp only [hcode] at hseg hgen ⊢
    rw [Ref.evalLetSeq]
    have ih := hE fnOk self e hbs.1.2 isFn _ gs (ra, gs1) ha hfn m s rs env pre ([.popStackPutEnv x] ++ rb.1 ++ post) hrel
      (fun h => (hgen h).first hk2.1) (hseg.refocus (by simp))
    cases h1 : Ref.eval n e env rs with
    | ok v1 rs1 =>
      rw [h1] at ih
      obtain ⟨s1, m1, w1, r1, l1, hv1, rel1, hm1, ext1, fr1, hcl1⟩ := ih
      simp only
      have a2 : At s1 (pre ++ ra.1) (.popStackPutEnv x) (rb.1 ++ post) :=
        hseg.landed l1 (c₁ := ra.1) (by simp) rfl
      have hp := psp_stepF a2 l1.data rel1 hbs.1.1 hcl1
      rw [hv1]
      cases hdef : Ref.define rs1 env x (trf m1 w1) with
      | none =>
        rw [hdef] at hp
        simp only
        exact (FailsX.of_reach r1 hp.toX)
      | some rs2 =>
        rw [hdef] at hp
        obtain ⟨r2, rel2, ext2⟩ := hp
        simp only
        have hfr12 : FrameF s1 ((s1.jmp (s1.pc + 1) s.data).bind env x w1) :=
          (FrameF.jmp _ _ _).trans (FrameF.bind _ _ _ _)
        have m2 : Moved (ra.1.length + 1) s ((s1.jmp (s1.pc + 1) s.data).bind env x w1) :=
          ⟨l1.fn, by show s1.pc + 1 = _; rw [l1.pc]; push_cast; omega, rfl⟩
        have ih2 := hL fnOk self bs' hbs.2 isFn _ gs1 (rb, gs2) hb hfn m1 _ rs2 env _ post rel2
          (fun h => ((hgen h).rest hk1.1).frame (fr1.trans hfr12).toFrame)
          (hseg.moved m2 (c₁ := ra.1 ++ [.popStackPutEnv x]) (c₂ := rb.1) (post' := post) rfl (by simp))
        cases h2 : Ref.evalLetSeq n bs' env rs2 with
        | ok u rs3 =>
          rw [h2] at ih2
          obtain ⟨s3, m3, r3, mv3, rel3, hm3, ext3, fr3⟩ := ih2
          exact ⟨s3, m3, ((r1.trans r2.toX).trans r3),
            ⟨mv3.fn.trans m2.fn, by rw [mv3.pc, m2.pc]; simp only [List.length_append, List.length_cons, List.length_nil]; push_cast; omega,
              mv3.data.trans m2.data⟩, rel3, hm1.trans hm3 (fr1.trans hfr12).fnsLen, (ext1.trans ext2).trans ext3,
            (fr1.trans hfr12).trans fr3⟩
        | err rs3 => rw [h2] at ih2; exact (FailsX.of_reach (r1.trans r2.toX) ih2)
        | timeout => trivial
        | brk l rs3 => rw [h2] at ih2; exact ih2.elim
        | cont l rs3 => rw [h2] at ih2; exact ih2.elim
    | err rs1 => rw [h1] at ih; exact ih
    | timeout => trivial
    | brk l rs1 => rw [h1] at ih; exact ih.elim
    | cont l rs1 => rw [h1] at ih; exact ih.elim

/-- one more value on a list of values being pushed -/
theorem simFL_cons {code ca cb : List Instr} {m m1 : Nat → Nat} {s s1 : St} {rs rs1 rs2 : Ref.St} {env : Nat} {w1 : Val}
    {vs' : List Val} (hcode : code = ca ++ cb)
    (r1 : ReachX s s1) (l1 : Lands ca.length w1 s s1) (hm1 : MExt s m m1) (ext1 : RExt rs rs1) (fr1 : FrameF s s1)
    (hcl1 : VOk m1 s1 rs1 w1) (h2 : SimFL cb m1 s1 rs1 env (.ok vs' rs2)) :
    SimFL code m s rs env (.ok (trf m1 w1 :: vs') rs2) := by
  subst hcode
  obtain ⟨s2, m2, vs, r2, hfn2, hpc2, hdata2, hvs2, rel2, hm2, ext2, fr2, hcl2⟩ := h2
  refine ⟨s2, m2, w1 :: vs, (r1.trans r2), hfn2.trans l1.fn, ?_, ?_, ?_, rel2, hm1.trans hm2 fr1.fnsLen, ext1.trans ext2,
    fr1.trans fr2, fun w hw => ?_⟩
  · rw [hpc2, l1.pc]; simp only [List.length_append]; push_cast; omega
  · rw [hdata2, l1.data]; simp
  · rw [List.map_cons, VOk.tr_ext hcl1 hm2, hvs2]
  · rcases List.mem_cons.mp hw with rfl | hw
    · exact VOk.ext hcl1 fr2 ext2 hm2
    · exact hcl2 w hw

theorem fclaimP_succ {n : Nat} (hE : FClaimE n) (hP : FClaimP n) : FClaimP (n + 1) := by
  intro fnOk self bs hbs isFn c gs r hc hfn m s rs env pre post hrel hgen hseg
  match bs with
  | [] =>
    rw [compileBinds] at hc; simp only [g_pure_ok] at hc; subst hc
    simp only [List.map_nil]
    rw [Ref.evalList]
    · exact ⟨s, m, [], ReachX.refl s, rfl, by simp, by simp, rfl, hrel, MExt.refl s m, RExt.refl rs, FrameF.refl s,
        fun v hv => by cases hv⟩
    · omega
  | (x, e) :: bs' =>
    rw [FfBinds] at hbs
    simp only [Bool.and_eq_true] at hbs
    rw [compileBinds] at hc
    simp only [g_bind_ok, g_pure_ok] at hc
    obtain ⟨ra, gs1, ha, rb, gs2, hb, rfl⟩ := hc
    have hk1 := compile_keep_Ff hbs.1.2 ha hfn
    have hk2 := compileBinds_keep_Ff hbs.2 hb hfn
    have hcode : (ra.1 ++ (if False then [Instr.popStackPutEnv x] else []) ++ rb.1) = ra.1 ++ rb.1 := by simp
    simp only [Bool.false_eq_true, hcode] at hseg hgen ⊢
    simp only [List.map_cons]
    rw [Ref.evalList]
    have ih := hE fnOk self e hbs.1.2 isFn _ gs (ra, gs1) ha hfn m s rs env pre (rb.1 ++ post) hrel
      (fun h => (hgen h).first hk2.1) (hseg.refocus (by simp))
    cases h1 : Ref.eval n e env rs with
    | ok v1 rs1 =>
      rw [h1] at ih
      obtain ⟨s1, m1, w1, r1, l1, hv1, rel1, hm1, ext1, fr1, hcl1⟩ := ih
      simp only
      have ih2 := hP fnOk self bs' hbs.2 isFn _ gs1 (rb, gs2) hb hfn m1 s1 rs1 env (pre ++ ra.1) post rel1
        (fun h => ((hgen h).rest hk1.1).frame fr1.toFrame)
        (hseg.move l1.fn (by simp) (by rw [l1.pc, hseg.pc]; simp))
      rw [hv1]
      cases h2 : Ref.evalList n (bs'.map (·.2)) env rs1 with
      | ok vs' rs2 => rw [h2] at ih2; exact simFL_cons rfl r1 l1 hm1 ext1 fr1 hcl1 ih2
      | err rs2 => rw [h2] at ih2; exact (FailsX.of_reach r1 ih2)
      | timeout => trivial
      | brk l rs2 => rw [h2] at ih2; exact ih2.elim
      | cont l rs2 => rw [h2] at ih2; exact ih2.elim
    | err rs1 => rw [h1] at ih; exact ih
    | timeout => trivial
    | brk l rs1 => rw [h1] at ih; exact ih.elim
    | cont l rs1 => rw [h1] at ih; exact ih.elim

theorem fclaimV_succ {n : Nat} (hE : FClaimE n) (hV : FClaimV n) : FClaimV (n + 1) := by
  intro fnOk self es hes isFn c gs r hc hfn m s rs env pre post hrel hgen hseg
  match es with
  | [] =>
    rw [compileAll] at hc; simp only [g_pure_ok] at hc; subst hc
    rw [Ref.evalList]
    · exact ⟨s, m, [], ReachX.refl s, rfl, by simp, by simp, rfl, hrel, MExt.refl s m, RExt.refl rs, FrameF.refl s,
        fun v hv => by cases hv⟩
    · omega
  | e :: es' =>
    rw [FfList] at hes
    simp only [Bool.and_eq_true] at hes
    rw [compileAll] at hc
    simp only [g_bind_ok, g_pure_ok] at hc
    obtain ⟨ra, gs1, ha, rb, gs2, hb, rfl⟩ := hc
    have hk1 := compile_keep_Ff hes.1 ha hfn
    have hk2 := compileAll_keep_Ff hes.2 hb hfn
    simp only at hgen
    rw [Ref.evalList]
    have ih := hE fnOk self e hes.1 isFn _ gs (ra, gs1) ha hfn m s rs env pre (rb.1 ++ post) hrel
      (fun h => (hgen h).first hk2.1) (hseg.refocus (by simp))
    cases h1 : Ref.eval n e env rs with
    | ok v1 rs1 =>
      rw [h1] at ih
      obtain ⟨s1, m1, w1, r1, l1, hv1, rel1, hm1, ext1, fr1, hcl1⟩ := ih
      simp only
      have ih2 := hV fnOk self es' hes.2 isFn _ gs1 (rb, gs2) hb hfn m1 s1 rs1 env (pre ++ ra.1) post rel1
        (fun h => ((hgen h).rest hk1.1).frame fr1.toFrame)
        (hseg.move l1.fn (by simp) (by rw [l1.pc, hseg.pc]; simp))
      rw [hv1]
      cases h2 : Ref.evalList n es' env rs1 with
      | ok vs' rs2 => rw [h2] at ih2; exact simFL_cons rfl r1 l1 hm1 ext1 fr1 hcl1 ih2
      | err rs2 => rw [h2] at ih2; exact (FailsX.of_reach r1 ih2)
      | timeout => trivial
      | brk l rs2 => rw [h2] at ih2; exact ih2.elim
      | cont l rs2 => rw [h2] at ih2; exact ih2.elim
    | err rs1 => rw [h1] at ih; exact ih
    | timeout => trivial
    | brk l rs1 => rw [h1] at ih; exact ih.elim
    | cont l rs1 => rw [h1] at ih; exact ih.elim

/-! ## Array literals -/

/-- `[e₁ … eₙ]`, after the elements have been pushed: `CallInstr{array, n}` allocates the array -/
theorem simF_arr_tail {m m1 : Nat → Nat} {s s₁ : St} {rs rs₁ : Ref.St} {env : Nat} {pre post ca : List Instr}
    {vs : List Val} {k : Nat}
    (h : Seg s pre (ca ++ [.callArr k]) post) (hk : k = vs.length)
    (r1 : ReachX s s₁) (hfn1 : fnOf s₁ s₁.curfunc = fnOf s s.curfunc)
    (hpc1 : s₁.pc = s.pc + (ca.length : Int)) (hd1 : s₁.data = vs.reverse.map some ++ s.data)
    (rel1 : RelF m1 s₁ rs₁ env) (hm1 : MExt s m m1) (ext1 : RExt rs rs₁) (fr1 : FrameF s s₁)
    (hclvs : ∀ v ∈ vs, VOk m1 s₁ rs₁ v) :
    SimF (ca ++ [.callArr k]) m s rs env
      (match rs₁.heap.alloc (vs.map (trf m1)) with | (a, hp) => .ok a { rs₁ with heap := hp }) := by
  have a2 : At s₁ (pre ++ ca) (.callArr k) post :=
    At.move h hfn1 (by simp) (by rw [hpc1, h.pc]; simp)
  have hfo : foResult "array" vs (inBuiltin s₁ s.data)
      = (.ok (s₁.heap.alloc vs).1, { inBuiltin s₁ s.data with heap := (s₁.heap.alloc vs).2 }) := by
    have hb : (inBuiltin s₁ s.data).heap = s₁.heap := rfl
    unfold foResult
    rw [if_neg (by decide), hb, prim_array]
  have hx : ∀ f, 2 ≤ f → (exec (f + 1) (.callArr k)).run s₁
      = (.ok (), afterBuiltin s₁ s.data (s₁.heap.alloc vs).1 (s₁.heap.alloc vs).2) := by
    intro f hf
    obtain ⟨g, rfl⟩ : ∃ g, f = g + 2 := ⟨f - 2, by omega⟩
    rw [exec, hk, run_callUser_fo g "array" (by decide) vs s.data s₁ hd1, hfo]
    rfl
  have hlen : (ca ++ [Instr.callArr k]).length = ca.length + 1 := by simp
  have halloc := trHeap_alloc m1 id id s₁.heap vs
  rw [rel1.heap, halloc]
  show SimF _ m s rs env (.ok (trf m1 (s₁.heap.alloc vs).1) { rs₁ with heap := trHeap m1 id id (s₁.heap.alloc vs).2 })
  have hhok : HOk m1 s₁ rs₁ (s₁.heap.alloc vs).2 := heapIn_alloc rel1.hok vs hclvs
  have hfr : FrameF s₁ (afterBuiltin s₁ s.data (s₁.heap.alloc vs).1 (s₁.heap.alloc vs).2) :=
    ⟨⟨rfl, rfl, rfl, rfl, Nat.le_refl _, fun _ _ => rfl, Nat.le_refl _, fun _ _ => rfl⟩, Nat.le_refl _, fun _ _ => rfl⟩
  have hrext : RExt rs₁ { rs₁ with heap := trHeap m1 id id (s₁.heap.alloc vs).2 } :=
    ⟨fun i fr hf => ⟨fr, hf, rfl⟩, fun i c hc => hc⟩
  refine ⟨_, m1, (s₁.heap.alloc vs).1, (r1.trans (ReachX.step a2 2 hx)), ⟨hfn1, ?_, rfl⟩, rfl,
    rel1.of_same rfl rfl rfl rfl rfl rfl rfl rel1.trace hhok, hm1, ext1.trans hrext, fr1.trans hfr,
    valIn_of_const (fun _ _ _ => rfl)⟩
  show s₁.pc + 1 = _
  rw [hpc1, hlen]; push_cast; omega

/-! ## `let` with distinct names -/

theorem ffBinds_names : ∀ (fnOk : Bool) (self : String) (bs : List (String × Expr)), FfBinds fnOk self bs = true →
    ∀ x ∈ bs.map (·.1), okName x = true
  | _, _, [], _, x, hx => by cases hx
  | fnOk, self, (y, e) :: bs, h, x, hx => by
    rw [FfBinds] at h
    simp only [Bool.and_eq_true] at h
    rcases List.mem_cons.mp hx with rfl | hx
    · exact h.1.1
    · exact ffBinds_names fnOk self bs h.2 x hx

theorem trPairs_reverse (m : Nat → Nat) (ps : List (String × Val)) : trPairs m ps.reverse = (trPairs m ps).reverse := by
  unfold trPairs; rw [List.map_reverse]

theorem trPairs_zip (m : Nat → Nat) (names : List String) (vs : List Val) :
    trPairs m (names.zip vs) = names.zip (vs.map (trf m)) := by
  unfold trPairs
  induction names generalizing vs with
  | nil => rfl
  | cons x xs ih =>
    cases vs with
    | nil => rfl
    | cons v vs => simp only [List.zip_cons_cons, List.map_cons, ih]

/-- `let` with pairwise distinct names: the initialisers in the fresh scope, the bindings
(popped in reverse order), the body, `removeScope`. -/
theorem fclaimE_letpar {n : Nat} (hB : FClaimB n) (hP : FClaimP n) {fnOk : Bool} {self : String}
    {bs : List (String × Expr)} {body : List Expr}
    (isFn : Nat → Bool) (c : Ctx) (gs : GS) (r : (List Instr × Bool) × GS)
    (hc : (compile isFn c (.let_ false bs body)).run gs = .ok r)
    (m : Nat → Nat) (s : St) (rs : Ref.St) (env : Nat) (pre post : List Instr) (hrel : RelF m s rs env)
    (hgen : fnOk = true → GenOk gs r.2 s) (hseg : Seg s pre r.1.1 post) (hfn : FnameOk self c)
    (hnd : (bs.map (·.1)).Nodup) (hbody : body ≠ []) (hbs : FfBinds fnOk self bs = true) (hbl : FfList fnOk self body = true) :
    SimF r.1.1 m s rs env (Ref.eval (n + 1) (.let_ false bs body) env rs) := by
  rw [compile] at hc
  simp only [g_bind_ok, g_pure_ok] at hc
  obtain ⟨ra, gs1, ha, rb, gs2, hb, rfl⟩ := hc
  have hk1 := compileBinds_keep_Ff hbs ha hfn
  have hk2 := compileBegin_keep_Ff hbody hbl hb hfn
  have hcode : ([Instr.addScope] ++ ra.1 ++ (if False then [] else (List.map (fun p => Instr.popStackPutEnv p.fst) bs).reverse)
      ++ rb.1 ++ [Instr.removeScope])
      = [Instr.addScope] ++ (ra.1 ++ (bs.map (fun p => Instr.popStackPutEnv p.1)).reverse ++ rb.1) ++ [Instr.removeScope] := by
    simp
  simp only [Bool.false_eq_true, hcode] at hseg hgen ⊢
  rw [Ref.eval]
  show SimF _ m s rs env (if false = true then _ else
      (match Ref.evalList n (bs.map (·.2)) rs.frames.length (Ref.newFrame rs env).2 with
       | .ok vs s => (match Ref.bindAll s rs.frames.length (bs.map (·.1)) vs with
          | some s => Ref.evalBegin n body rs.frames.length s
          | none => .err s)
       | .err s => .err s | .brk l s => .brk l s | .cont l s => .cont l s | .timeout => .timeout))
  rw [if_neg (by decide)]
  refine SimF.scoped hseg hrel ?_
  have hseg1 := hseg.inner
  have hL := hP fnOk self bs hbs isFn _ gs (ra, gs1) ha hfn m _ _ _ _ _ hrel.pushScope
    (fun h => ((hgen h).first hk2.1).mono (FnsKeep.of_fns_eq rfl))
    (hseg1.refocus (c' := ra.1)
      (post' := (bs.map (fun p => Instr.popStackPutEnv p.1)).reverse ++ rb.1 ++ ([.removeScope] ++ post)) (by simp))
  cases h1 : Ref.evalList n (bs.map (·.2)) rs.frames.length (Ref.newFrame rs env).2 with
  | ok vs' rs2 =>
    rw [h1] at hL
    obtain ⟨s2, m2, vs, r2, hfn2, hpc2, hdata2, hvs2, rel2, hm2, ext2, fr2, hcl2⟩ := hL
    simp only
    have hlen : vs.length = bs.length := by
      have := ref_evalList_length _ _ _ _ _ _ h1
      rw [hvs2] at this
      simpa using this
    -- the pairs in the order the VM binds them
    have hmapI : ((bs.map (·.1)).zip vs).reverse.map (fun p => Instr.popStackPutEnv p.1)
        = (bs.map (fun p => Instr.popStackPutEnv p.1)).reverse := by
      rw [List.map_reverse]
      congr 1
      have : ((bs.map (·.1)).zip vs).map (fun p => Instr.popStackPutEnv p.1)
          = (((bs.map (·.1)).zip vs).map (·.1)).map Instr.popStackPutEnv := by rw [List.map_map]; rfl
      rw [this, List.map_fst_zip (by simp [hlen]), List.map_map]; rfl
    have hmapD : ((bs.map (·.1)).zip vs).reverse.map (fun p => some p.2) = vs.reverse.map some := by
      have : ((bs.map (·.1)).zip vs).map (fun p => some p.2)
          = (((bs.map (·.1)).zip vs).map (·.2)).map some := by rw [List.map_map]; rfl
      rw [List.map_reverse, List.map_reverse, this, List.map_snd_zip (by simp [hlen])]
    have hndz : ((trPairs m2 ((bs.map (·.1)).zip vs)).map (·.1)).Nodup := by
      rw [trPairs_zip, List.map_fst_zip (by simp [hlen])]; exact hnd
    have hsegB : Seg s2 (pre ++ [Instr.addScope] ++ ra.1)
        (((bs.map (·.1)).zip vs).reverse.map (fun p => Instr.popStackPutEnv p.1)) (rb.1 ++ ([.removeScope] ++ post)) := by
      rw [hmapI]
      exact hseg1.move hfn2 (by simp) (by rw [hpc2, hseg1.pc]; simp; omega)
    have hokp : ∀ p ∈ ((bs.map (·.1)).zip vs).reverse, okName p.1 = true := by
      intro p hp
      have hmem : p.1 ∈ bs.map (·.1) := (List.of_mem_zip (show (p.1, p.2) ∈ _ from List.mem_reverse.mp hp)).1
      exact ffBinds_names fnOk self bs hbs p.1 hmem
    have hclp : ∀ p ∈ ((bs.map (·.1)).zip vs).reverse, VOk m2 s2 rs2 p.2 := by
      intro p hp
      exact hcl2 p.2 (List.of_mem_zip (show (p.1, p.2) ∈ _ from List.mem_reverse.mp hp)).2
    have hvm := vm_defineAllF ((bs.map (·.1)).zip vs).reverse s2 rs2 rs.frames.length _ _ s.pushScope.data hokp hclp hsegB
      (by rw [hmapD]; exact hdata2) rel2
    obtain ⟨k2, hch2, hfc2⟩ := rel2.ctx
    have hlt2 := hch2.lt
    obtain ⟨fr0, hfr0⟩ : ∃ fr0, rs2.frames[rs.frames.length]? = some fr0 := ⟨rs2.frames[rs.frames.length], by simp [hlt2]⟩
    have hrev := defineAll_reverse rs2 rs.frames.length fr0 hfr0 (trPairs m2 ((bs.map (·.1)).zip vs)) hndz
    rw [bindAll_eq_defineAll, hvs2, ← trPairs_zip]
    rw [trPairs_reverse] at hvm
    cases hfwd : defineAll rs2 rs.frames.length (trPairs m2 ((bs.map (·.1)).zip vs)) with
    | some a =>
      cases hbwd : defineAll rs2 rs.frames.length (trPairs m2 ((bs.map (·.1)).zip vs)).reverse with
      | some b =>
        rw [hfwd, hbwd] at hrev
        rw [hbwd] at hvm
        obtain ⟨va, vb, hva, hvb, hlook⟩ := hrev
        obtain ⟨s3, r3, hfn3, hpc3, hdata3, rel3, ext3, fr3⟩ := hvm
        simp only
        rw [hvb] at rel3 ext3
        have rel3a : RelF m2 s3 a rs.frames.length := by rw [hva]; exact rel3.withVars_congr hfr0 hlook
        have ext3a : RExt rs2 a := by rw [hva]; exact ⟨ext3.1.withVars_congr, ext3.2⟩
        have m3 : Moved (ra.1.length + (bs.map (fun p => Instr.popStackPutEnv p.1)).reverse.length) s.pushScope s3 :=
          ⟨hfn3.trans hfn2, by
            rw [hpc3, hpc2]; simp only [List.length_reverse, List.length_map, List.length_zip, hlen, Nat.min_self]
            push_cast; omega, hdata3⟩
        have ihb := hB fnOk self body hbody hbl isFn _ gs1 (rb, gs2) hb hfn m2 s3 a _ _ _ rel3a
          (fun h => (((hgen h).rest hk1.1).mono (s' := s.pushScope) (FnsKeep.of_fns_eq rfl)).frame (fr2.trans fr3).toFrame)
          (hseg1.moved m3 (c₁ := ra.1 ++ (bs.map (fun p => Instr.popStackPutEnv p.1)).reverse) (c₂ := rb.1)
            (post' := [.removeScope] ++ post) (by simp) (by simp))
        refine SimF.seq (r2.trans r3.toX) m3 hm2 (ext2.trans ext3a) (fr2.trans fr3) ihb ?_
        simp only [List.length_append, List.length_reverse, List.length_map]
      | none =>
        rw [hfwd, hbwd] at hrev
        exact hrev.elim
    | none =>
      cases hbwd : defineAll rs2 rs.frames.length (trPairs m2 ((bs.map (·.1)).zip vs)).reverse with
      | some b =>
        rw [hfwd, hbwd] at hrev
        exact hrev.elim
      | none =>
        rw [hbwd] at hvm
        simp only
        exact FailsX.of_reach r2 hvm.toX
  | err rs2 => rw [h1] at hL; exact hL
  | timeout => trivial
  | brk l rs2 => rw [h1] at hL; exact hL.elim
  | cont l rs2 => rw [h1] at hL; exact hL.elim

/-- the bindings of a parallel `let` alone (initialisers, then the `popStackPutEnv`s in reverse order),
against `evalList` followed by `bindAll` — what `fclaimE_letpar` does before the body -/
theorem letpar_binds {n : Nat} (hP : FClaimP n) {fnOk : Bool} {self : String} {bs : List (String × Expr)}
    (isFn : Nat → Bool) (c : Ctx) (gs : GS) (r : (List Instr × Bool) × GS)
    (ha : (compileBinds isFn c false bs).run gs = .ok r) (hfn : FnameOk self c)
    (hnd : (bs.map (·.1)).Nodup) (hbs : FfBinds fnOk self bs = true)
    (m : Nat → Nat) (s : St) (rs : Ref.St) (fr : Nat) (pre post : List Instr) (hrel : RelF m s rs fr)
    (hgen : fnOk = true → GenOk gs r.2 s)
    (hseg : Seg s pre (r.1.1 ++ (bs.map (fun p => Instr.popStackPutEnv p.1)).reverse) post) :
    SimFU (r.1.1 ++ (bs.map (fun p => Instr.popStackPutEnv p.1)).reverse) m s rs fr
      (match Ref.evalList n (bs.map (·.2)) fr rs with
       | .ok vs s => (match Ref.bindAll s fr (bs.map (·.1)) vs with
          | some s => .ok () s
          | none => .err s)
       | .err s => .err s | .brk l s => .brk l s | .cont l s => .cont l s | .timeout => .timeout) := by
  have hL := hP fnOk self bs hbs isFn c gs r ha hfn m s rs fr pre
    ((bs.map (fun p => Instr.popStackPutEnv p.1)).reverse ++ post) hrel hgen (hseg.refocus (by simp))
  cases h1 : Ref.evalList n (bs.map (·.2)) fr rs with
  | ok vs' rs2 =>
    rw [h1] at hL
    obtain ⟨s2, m2, vs, r2, hfn2, hpc2, hdata2, hvs2, rel2, hm2, ext2, fr2, hcl2⟩ := hL
    simp only
    have hlen : vs.length = bs.length := by
      have := ref_evalList_length _ _ _ _ _ _ h1
      rw [hvs2] at this
      simpa using this
    have hmapI : ((bs.map (·.1)).zip vs).reverse.map (fun p => Instr.popStackPutEnv p.1)
        = (bs.map (fun p => Instr.popStackPutEnv p.1)).reverse := by
      rw [List.map_reverse]
      congr 1
      have : ((bs.map (·.1)).zip vs).map (fun p => Instr.popStackPutEnv p.1)
          = (((bs.map (·.1)).zip vs).map (·.1)).map Instr.popStackPutEnv := by rw [List.map_map]; rfl
      rw [this, List.map_fst_zip (by simp [hlen]), List.map_map]; rfl
    have hmapD : ((bs.map (·.1)).zip vs).reverse.map (fun p => some p.2) = vs.reverse.map some := by
      have : ((bs.map (·.1)).zip vs).map (fun p => some p.2)
          = (((bs.map (·.1)).zip vs).map (·.2)).map some := by rw [List.map_map]; rfl
      rw [List.map_reverse, List.map_reverse, this, List.map_snd_zip (by simp [hlen])]
    have hndz : ((trPairs m2 ((bs.map (·.1)).zip vs)).map (·.1)).Nodup := by
      rw [trPairs_zip, List.map_fst_zip (by simp [hlen])]; exact hnd
    have hsegB : Seg s2 (pre ++ r.1.1)
        (((bs.map (·.1)).zip vs).reverse.map (fun p => Instr.popStackPutEnv p.1)) post := by
      rw [hmapI]
      exact hseg.move hfn2 (by simp) (by rw [hpc2, hseg.pc]; simp)
    have hokp : ∀ p ∈ ((bs.map (·.1)).zip vs).reverse, okName p.1 = true := by
      intro p hp
      have hmem : p.1 ∈ bs.map (·.1) := (List.of_mem_zip (show (p.1, p.2) ∈ _ from List.mem_reverse.mp hp)).1
      exact ffBinds_names fnOk self bs hbs p.1 hmem
    have hclp : ∀ p ∈ ((bs.map (·.1)).zip vs).reverse, VOk m2 s2 rs2 p.2 := by
      intro p hp
      exact hcl2 p.2 (List.of_mem_zip (show (p.1, p.2) ∈ _ from List.mem_reverse.mp hp)).2
    have hvm := vm_defineAllF ((bs.map (·.1)).zip vs).reverse s2 rs2 fr _ _ s.data hokp hclp hsegB
      (by rw [hmapD]; exact hdata2) rel2
    obtain ⟨k2, hch2, hfc2⟩ := rel2.ctx
    have hlt2 := hch2.lt
    obtain ⟨fr0, hfr0⟩ : ∃ fr0, rs2.frames[fr]? = some fr0 := ⟨rs2.frames[fr], by simp [hlt2]⟩
    have hrev := defineAll_reverse rs2 fr fr0 hfr0 (trPairs m2 ((bs.map (·.1)).zip vs)) hndz
    rw [bindAll_eq_defineAll, hvs2, ← trPairs_zip]
    rw [trPairs_reverse] at hvm
    cases hfwd : defineAll rs2 fr (trPairs m2 ((bs.map (·.1)).zip vs)) with
    | some a =>
      cases hbwd : defineAll rs2 fr (trPairs m2 ((bs.map (·.1)).zip vs)).reverse with
      | some b =>
        rw [hfwd, hbwd] at hrev
        rw [hbwd] at hvm
        obtain ⟨va, vb, hva, hvb, hlook⟩ := hrev
        obtain ⟨s3, r3, hfn3, hpc3, hdata3, rel3, ext3, fr3⟩ := hvm
        simp only
        rw [hvb] at rel3 ext3
        have rel3a : RelF m2 s3 a fr := by rw [hva]; exact rel3.withVars_congr hfr0 hlook
        have ext3a : RExt rs2 a := by rw [hva]; exact ⟨ext3.1.withVars_congr, ext3.2⟩
        have m3 : Moved (r.1.1 ++ (bs.map (fun p => Instr.popStackPutEnv p.1)).reverse).length s s3 :=
          ⟨hfn3.trans hfn2, by
            rw [hpc3, hpc2]; simp only [List.length_append, List.length_reverse, List.length_map, List.length_zip, hlen, Nat.min_self]
            push_cast; omega, hdata3⟩
        exact ⟨s3, m2, r2.trans r3.toX, m3, rel3a, hm2, ext2.trans ext3a, fr2.trans fr3⟩
      | none =>
        rw [hfwd, hbwd] at hrev
        exact hrev.elim
    | none =>
      cases hbwd : defineAll rs2 fr (trPairs m2 ((bs.map (·.1)).zip vs)).reverse with
      | some b =>
        rw [hfwd, hbwd] at hrev
        exact hrev.elim
      | none =>
        rw [hbwd] at hvm
        simp only
        exact FailsX.of_reach r2 hvm.toX
  | err rs2 => rw [h1] at hL; exact hL
  | timeout => trivial
  | brk l rs2 => rw [h1] at hL; exact hL.elim
  | cont l rs2 => rw [h1] at hL; exact hL.elim

/-! ## `for` loops (without `break`/`continue`) -/

theorem vOk_not_mark {m s rs v} (h : VOk m s rs v) (L : Nat) : v ≠ .mark L := by
  intro e; subst e; exact h.mark

/-- the outcome of a piece of loop code that ends in `popUntilMark`: back on the mark -/
def OnMarkF {α : Type} (m : Nat → Nat) (σ : St) (rs : Ref.St) (fr L : Nat) (D : List (Option Val)) (target : Int)
    (res : Ref.R α) : Prop :=
  match res with
  | .ok _ rs' => ∃ (σ' : St) (m' : Nat → Nat), ReachX σ σ' ∧ σ'.pc = target ∧ σ'.data = some (.mark L) :: D
      ∧ fnOf σ' σ'.curfunc = fnOf σ σ.curfunc ∧ RelF m' σ' rs' fr ∧ MExt σ m m' ∧ RExt rs rs' ∧ FrameF σ σ'
  | .err rs' => FailsX σ rs'.trace
  | .timeout => True
  | .brk _ _ => False
  | .cont _ _ => False

/-- code `c` (simulating `res`) followed by `popUntilMark L`, started on the mark -/
theorem seg_pumF {m : Nat → Nat} {σ : St} {rs : Ref.St} {fr L : Nat} {D : List (Option Val)} {full P c Q : List Instr}
    {res : Ref.R Val} (hin : InFn σ full) (hc : full = P ++ c ++ (.popUntilMark L :: Q)) (hp : σ.pc = (P.length : Int))
    (hd : σ.data = some (.mark L) :: D) (hsim : SimF c m σ rs fr res) :
    OnMarkF m σ rs fr L D (σ.pc + (c.length : Int) + 1) res := by
  cases res with
  | ok v rs' =>
    obtain ⟨σ1, m1, w, r1, l1, hv1, rel1, hm1, ext1, fr1, hcl⟩ := hsim
    have a1 : At σ1 (P ++ c) (.popUntilMark L) Q :=
      (hin.of_fn l1.fn).at (by rw [hc]) (by rw [l1.pc, hp]; simp)
    have hx : ∀ f, (exec (f + 1) (.popUntilMark L)).run σ1 = (.ok (), σ1.jmp (σ1.pc + 1) (some (.mark L) :: D)) :=
      fun f => exec_popUntilMark f L σ1 [some w] D (by rw [l1.data, hd]; rfl) (Or.inr ⟨w, rfl, vOk_not_mark hcl L⟩)
    exact ⟨_, m1, r1.trans (Reach.step a1 hx).toX, by rw [St.jmp_pc, l1.pc], rfl, l1.fn, rel1.jmp _ _, hm1, ext1,
      fr1.trans (FrameF.jmp _ _ _)⟩
  | err rs' => exact hsim
  | timeout => trivial
  | brk l rs' => exact hsim
  | cont l rs' => exact hsim

theorem OnMarkF.of_reach {α : Type} {m m₁ : Nat → Nat} {σ σ₁ : St} {rs rs₁ : Ref.St} {fr L : Nat} {D : List (Option Val)}
    {tgt : Int} {res : Ref.R α} (hr : ReachX σ σ₁) (hfn : fnOf σ₁ σ₁.curfunc = fnOf σ σ.curfunc) (hm : MExt σ m m₁)
    (hext : RExt rs rs₁) (hfr : FrameF σ σ₁) (h : OnMarkF m₁ σ₁ rs₁ fr L D tgt res) : OnMarkF m σ rs fr L D tgt res := by
  cases res with
  | ok a rs' =>
    obtain ⟨σ', m', r, hp, hd, hf, rel, hm', ext, fr'⟩ := h
    exact ⟨σ', m', hr.trans r, hp, hd, hf.trans hfn, rel, hm.trans hm' hfr.fnsLen, hext.trans ext, hfr.trans fr'⟩
  | err rs' => exact FailsX.of_reach hr h
  | timeout => trivial
  | brk l rs' => exact h
  | cont l rs' => exact h

/-- **One `for` loop from its test label on** (after the initialiser), against `Ref.loop`. -/
def FClaimF (n : Nat) : Prop :=
  ∀ (fnOk : Bool) (self : String) (label : Option String) (test incr : Expr) (body : List Expr),
  Ff fnOk self test = true → Ff fnOk self incr = true → FfList fnOk self body = true →
  ∀ (isFn : Nat → Bool) (c : Ctx),
  ∀ gb rb g2 gt rt g4 gi ri g5, (compileBegin isFn c body).run gb = .ok (rb, g2) →
    (compile isFn c test).run gt = .ok (rt, g4) → (compile isFn c incr).run gi = .ok (ri, g5) → FnameOk self c →
  ∀ (L : Nat) (ci pre post : List Instr) (m : Nat → Nat) (σ : St) (rs : Ref.St) (fr : Nat) (D : List (Option Val)),
    InFn σ (forFull pre post L ci rt.1 ri.1 rb.1) →
    σ.pc = ((pre.length + ci.length + ri.1.length + 8 : Nat) : Int) →
    σ.data = some (.mark L) :: D → RelF m σ rs fr →
    (fnOk = true → GenOk gb g2 σ ∧ GenOk gt g4 σ ∧ GenOk gi g5 σ) →
    OnMarkF m σ rs fr L D ((pre.length + ci.length + ri.1.length + rt.1.length + rb.1.length + 13 : Nat) : Int)
      (Ref.loop n label test incr body fr rs)

/-- the body of a loop followed by `popUntilMark`; the body may be empty -/
theorem body_pumF {n : Nat} (hB : FClaimB n) {fnOk : Bool} {self : String} {body : List Expr}
    (hbody : FfList fnOk self body = true) {isFn : Nat → Bool} {c : Ctx}
    (hfn : FnameOk self c) {gb rb g2} (hcb : (compileBegin isFn c body).run gb = .ok (rb, g2))
    {m : Nat → Nat} {σ : St} {rs : Ref.St} {fr L : Nat} {D : List (Option Val)} {full P Q : List Instr}
    (hin : InFn σ full) (hc : full = P ++ rb.1 ++ (.popUntilMark L :: Q)) (hp : σ.pc = (P.length : Int))
    (hd : σ.data = some (.mark L) :: D) (hrel : RelF m σ rs fr) (hgen : fnOk = true → GenOk gb g2 σ) :
    OnMarkF m σ rs fr L D (σ.pc + (rb.1.length : Int) + 1) (Ref.evalBegin n body fr rs) := by
  cases body with
  | nil =>
    rw [compileBegin] at hcb; simp only [g_pure_ok] at hcb
    have hrb : rb.1 = [] := by rw [(Prod.mk.inj hcb).1]
    cases n with
    | zero => rw [Ref.evalBegin]; trivial
    | succ k =>
      rw [Ref.evalBegin]
      · have a1 : At σ P (.popUntilMark L) Q := hin.at (by rw [hc, hrb]; simp) hp
        have hx : ∀ f, (exec (f + 1) (.popUntilMark L)).run σ = (.ok (), σ.jmp (σ.pc + 1) (some (.mark L) :: D)) :=
          fun f => exec_popUntilMark f L σ [] D (by rw [hd]; rfl) (Or.inl rfl)
        exact ⟨_, m, (Reach.step a1 hx).toX, by rw [St.jmp_pc, hrb]; simp, rfl, rfl, hrel.jmp _ _, MExt.refl _ _,
          RExt.refl rs, FrameF.jmp _ _ _⟩
      · omega
  | cons e0 es0 =>
    exact seg_pumF hin hc hp hd
      (hB fnOk self (e0 :: es0) (by simp) hbody isFn c gb (rb, g2) hcb hfn m σ rs fr P _ hrel hgen (hin.seg (by rw [hc]) hp))

theorem fclaimF_succ {n : Nat} (hE : FClaimE n) (hB : FClaimB n) (hF : FClaimF n) : FClaimF (n + 1) := by
  intro fnOk self label test incr body htest hincr hbody isFn c gb rb g2 gt rt g4 gi ri g5 hcb hct hci hfn
    L ci pre post m σ rs fr D hin hpc hd hrel hgen
  rw [Ref.loop]
  -- the test label
  have a0 : At σ (pre ++ fHd L ++ ci ++ fMid L ri.1 ++ ri.1 ++ [.popUntilMark L]) .label
      (rt.1 ++ fBr rb.1 ++ rb.1 ++ fTl L ri.1 rt.1 rb.1 ++ post) :=
    hin.at (by simp [forFull]) (by rw [hpc]; simp; omega)
  have r0 := reachX_label a0
  -- the test
  have hseg1 : Seg (σ.jmp (σ.pc + 1) σ.data) (pre ++ fHd L ++ ci ++ fMid L ri.1 ++ ri.1 ++ [.popUntilMark L, .label]) rt.1
      (fBr rb.1 ++ rb.1 ++ fTl L ri.1 rt.1 rb.1 ++ post) :=
    (hin.of_fn (σ' := σ.jmp (σ.pc + 1) σ.data) rfl).seg (by simp [forFull]) (by rw [St.jmp_pc, hpc]; simp; omega)
  have ih1 := hE fnOk self test htest isFn c gt (rt, g4) hct hfn m _ rs fr _ _ (hrel.jmp _ _)
    (fun h => (hgen h).2.1.frame (Frame.jmp σ (σ.pc + 1) σ.data)) hseg1
  cases h1 : Ref.eval n test fr rs with
  | ok tv rs1 =>
    rw [h1] at ih1
    obtain ⟨σ2, m2, w2, r2, l2, hv2, rel2, hm2, ext2, fr2, hcl2⟩ := ih1
    simp only
    have htr : truthy tv = truthy w2 := by rw [hv2]; exact truthy_tr m2 id id w2
    have hin2 : InFn σ2 (forFull pre post L ci rt.1 ri.1 rb.1) := hin.of_fn (l2.fn.trans rfl)
    have hpc2 : σ2.pc = ((pre.length + ci.length + ri.1.length + rt.1.length + 9 : Nat) : Int) := by
      rw [l2.pc, St.jmp_pc, hpc]; push_cast; omega
    have hd2 : σ2.data = some w2 :: some (.mark L) :: D := by rw [l2.data, St.jmp_data, hd]
    have a2 : At σ2 (pre ++ fHd L ++ ci ++ fMid L ri.1 ++ ri.1 ++ [.popUntilMark L, .label] ++ rt.1)
        (.branch false ((rb.1.length : Int) + 4)) ([.label] ++ rb.1 ++ fTl L ri.1 rt.1 rb.1 ++ post) :=
      hin2.at (by simp [forFull]) (by rw [hpc2]; simp; omega)
    have hfr02 : FrameF σ σ2 := (FrameF.jmp _ _ _).trans fr2
    have hgen2 : fnOk = true → GenOk gb g2 σ2 ∧ GenOk gt g4 σ2 ∧ GenOk gi g5 σ2 := fun h =>
      ⟨(hgen h).1.frame hfr02.toFrame, (hgen h).2.1.frame hfr02.toFrame, (hgen h).2.2.frame hfr02.toFrame⟩
    by_cases htv : truthy w2 = true
    · -- the body
      have hnt : (!truthy tv) = false := by rw [htr, htv]; rfl
      rw [if_neg (by rw [hnt]; decide)]
      have r3 := (reach_branch_fall a2 hd2 (by rw [htv]; decide)).toX
      have a3 : At (σ2.jmp (σ2.pc + 1) (some (.mark L) :: D))
          (pre ++ fHd L ++ ci ++ fMid L ri.1 ++ ri.1 ++ [.popUntilMark L, .label] ++ rt.1
            ++ [.branch false ((rb.1.length : Int) + 4)]) .label (rb.1 ++ fTl L ri.1 rt.1 rb.1 ++ post) :=
        (hin2.of_fn (σ' := σ2.jmp (σ2.pc + 1) (some (.mark L) :: D)) rfl).at (by simp [forFull])
          (by rw [St.jmp_pc, hpc2]; simp; omega)
      have r4 := reachX_label a3
      generalize hσ4 : ((σ2.jmp (σ2.pc + 1) (some (.mark L) :: D)).jmp ((σ2.jmp (σ2.pc + 1) (some (.mark L) :: D)).pc + 1)
          (σ2.jmp (σ2.pc + 1) (some (.mark L) :: D)).data) = σ4 at r4
      have hin4 : InFn σ4 (forFull pre post L ci rt.1 ri.1 rb.1) := by subst hσ4; exact hin2.of_fn rfl
      have hpc4 : σ4.pc = ((pre.length + ci.length + ri.1.length + rt.1.length + 11 : Nat) : Int) := by
        subst hσ4; simp only [St.jmp_pc, hpc2]; push_cast; omega
      have hd4 : σ4.data = some (.mark L) :: D := by subst hσ4; rfl
      have rel4 : RelF m2 σ4 rs1 fr := by subst hσ4; exact (rel2.jmp _ _).jmp _ _
      have hfr24 : FrameF σ2 σ4 := by subst hσ4; exact (FrameF.jmp _ _ _).trans (FrameF.jmp _ _ _)
      have hfn24 : fnOf σ4 σ4.curfunc = fnOf σ2 σ2.curfunc := by subst hσ4; rfl
      have hb := body_pumF hB hbody hfn hcb hin4
        (P := pre ++ fHd L ++ ci ++ fMid L ri.1 ++ ri.1 ++ [.popUntilMark L, .label] ++ rt.1 ++ fBr rb.1)
        (Q := [.jump (-((ri.1.length : Int) + rt.1.length + rb.1.length + 6)), .label, .clearMark L, .removeScope,
          .push .nil] ++ post) (D := D) (by simp [forFull]) (by rw [hpc4]; simp; omega) hd4 rel4
        (fun h => (hgen2 h).1.frame hfr24.toFrame)
      have hreach4 := ((r0.trans r2).trans r3).trans r4
      have hfr4 : FrameF σ σ4 := hfr02.trans hfr24
      refine OnMarkF.of_reach hreach4 (hfn24.trans (l2.fn.trans rfl)) hm2 ext2 hfr4 ?_
      cases h2 : Ref.evalBegin n body fr rs1 with
      | ok vb rs2 =>
        rw [h2] at hb
        obtain ⟨σ6, m6, r6, hpc6, hd6, hfn6, rel6, hm6, ext6, fr6⟩ := hb
        simp only
        have hin6 : InFn σ6 (forFull pre post L ci rt.1 ri.1 rb.1) := hin4.of_fn hfn6
        have hpc6' : σ6.pc = ((pre.length + ci.length + ri.1.length + rt.1.length + rb.1.length + 12 : Nat) : Int) := by
          rw [hpc6, hpc4]; push_cast; omega
        -- the back jump
        have a6 : At σ6 (pre ++ fHd L ++ ci ++ fMid L ri.1 ++ ri.1 ++ [.popUntilMark L, .label] ++ rt.1 ++ fBr rb.1 ++ rb.1
            ++ [.popUntilMark L]) (.jump (-((ri.1.length : Int) + rt.1.length + rb.1.length + 6)))
            ([.label, .clearMark L, .removeScope, .push .nil] ++ post) :=
          hin6.at (by simp [forFull]) (by rw [hpc6']; simp; omega)
        have r7 := (reach_jump a6 (by rw [hpc6']; push_cast; omega)
          (by rw [hpc6']; simp only [List.length_append, List.length_cons, List.length_nil]; push_cast; omega)).toX
        have hpc7 : (σ6.jmp (σ6.pc + -((ri.1.length : Int) + rt.1.length + rb.1.length + 6)) σ6.data).pc
            = ((pre.length + ci.length + 6 : Nat) : Int) := by rw [St.jmp_pc, hpc6']; push_cast; omega
        have a7 : At (σ6.jmp (σ6.pc + -((ri.1.length : Int) + rt.1.length + rb.1.length + 6)) σ6.data)
            (pre ++ fHd L ++ ci ++ [.popUntilMark L, .jump ((ri.1.length : Int) + 3)]) .label
            (ri.1 ++ [.popUntilMark L, .label] ++ rt.1 ++ fBr rb.1 ++ rb.1 ++ fTl L ri.1 rt.1 rb.1 ++ post) :=
          (hin6.of_fn (σ' := σ6.jmp (σ6.pc + -((ri.1.length : Int) + rt.1.length + rb.1.length + 6)) σ6.data) rfl).at
            (by simp [forFull]) (by rw [hpc7]; simp; omega)
        have r8 := reachX_label a7
        generalize hσ8 : ((σ6.jmp (σ6.pc + -((ri.1.length : Int) + rt.1.length + rb.1.length + 6)) σ6.data).jmp
          ((σ6.jmp (σ6.pc + -((ri.1.length : Int) + rt.1.length + rb.1.length + 6)) σ6.data).pc + 1)
          (σ6.jmp (σ6.pc + -((ri.1.length : Int) + rt.1.length + rb.1.length + 6)) σ6.data).data) = σ8 at r8
        have hin8 : InFn σ8 (forFull pre post L ci rt.1 ri.1 rb.1) := by subst hσ8; exact hin6.of_fn rfl
        have hpc8 : σ8.pc = ((pre.length + ci.length + 7 : Nat) : Int) := by
          subst hσ8; rw [St.jmp_pc, hpc7]; push_cast; omega
        have hd8 : σ8.data = some (.mark L) :: D := by subst hσ8; exact hd6
        have rel8 : RelF m6 σ8 rs2 fr := by subst hσ8; exact (rel6.jmp _ _).jmp _ _
        have hfr68 : FrameF σ6 σ8 := by subst hσ8; exact (FrameF.jmp _ _ _).trans (FrameF.jmp _ _ _)
        have hfn68 : fnOf σ8 σ8.curfunc = fnOf σ6 σ6.curfunc := by subst hσ8; rfl
        have hgen8 : fnOk = true → GenOk gb g2 σ8 ∧ GenOk gt g4 σ8 ∧ GenOk gi g5 σ8 := fun h =>
          ⟨(hgen2 h).1.frame ((hfr24.trans fr6).trans hfr68).toFrame, (hgen2 h).2.1.frame ((hfr24.trans fr6).trans hfr68).toFrame,
            (hgen2 h).2.2.frame ((hfr24.trans fr6).trans hfr68).toFrame⟩
        have hseg8 : Seg σ8 (pre ++ fHd L ++ ci ++ fMid L ri.1) ri.1
            ([.popUntilMark L, .label] ++ rt.1 ++ fBr rb.1 ++ rb.1 ++ fTl L ri.1 rt.1 rb.1 ++ post) :=
          hin8.seg (by simp [forFull]) (by rw [hpc8]; simp; omega)
        have ih8 := hE fnOk self incr hincr isFn c gi (ri, g5) hci hfn m6 σ8 rs2 fr _ _ rel8 (fun h => (hgen8 h).2.2) hseg8
        have hs := seg_pumF hin8 (P := pre ++ fHd L ++ ci ++ fMid L ri.1) (c := ri.1)
          (Q := [.label] ++ rt.1 ++ fBr rb.1 ++ rb.1 ++ fTl L ri.1 rt.1 rb.1 ++ post) (by simp [forFull])
          (by rw [hpc8]; simp; omega) hd8 ih8
        refine OnMarkF.of_reach ((r6.trans r7).trans r8) (hfn68.trans hfn6) hm6 ext6 (fr6.trans hfr68) ?_
        cases h3 : Ref.eval n incr fr rs2 with
        | ok vs rs3 =>
          rw [h3] at hs
          obtain ⟨σ10, m10, r10, hpc10, hd10, hfn10, rel10, hm10, ext10, fr10⟩ := hs
          simp only
          refine OnMarkF.of_reach r10 hfn10 hm10 ext10 fr10 ?_
          exact hF fnOk self label test incr body htest hincr hbody isFn c gb rb g2 gt rt g4 gi ri g5 hcb hct hci hfn
            L ci pre post m10 σ10 rs3 fr D (hin8.of_fn hfn10) (by rw [hpc10, hpc8]; push_cast; omega) hd10 rel10
            (fun h => ⟨(hgen8 h).1.frame fr10.toFrame, (hgen8 h).2.1.frame fr10.toFrame, (hgen8 h).2.2.frame fr10.toFrame⟩)
        | err rs3 => rw [h3] at hs; exact hs
        | timeout => trivial
        | brk l rs3 => rw [h3] at hs; exact hs.elim
        | cont l rs3 => rw [h3] at hs; exact hs.elim
      | err rs2 => rw [h2] at hb; exact hb
      | timeout => trivial
      | brk l rs2 => rw [h2] at hb; exact hb.elim
      | cont l rs2 => rw [h2] at hb; exact hb.elim
    · -- the exit branch
      have hft : truthy w2 = false := by simpa using htv
      rw [if_pos (by rw [htr, hft]; rfl)]
      have r3 := (reach_branch_taken a2 hd2 (by rw [hft])
        (by rw [hpc2]; push_cast; omega)
        (by rw [hpc2]; simp only [List.length_append, List.length_cons, List.length_nil]; push_cast; omega)).toX
      exact ⟨_, m2, (r0.trans r2).trans r3, by rw [St.jmp_pc, hpc2]; push_cast; omega, rfl, l2.fn.trans rfl, rel2.jmp _ _, hm2, ext2,
        hfr02.trans (FrameF.jmp _ _ _)⟩
  | err rs1 =>
    rw [h1] at ih1
    exact FailsX.of_reach r0 ih1
  | timeout => trivial
  | brk l rs1 => rw [h1] at ih1; exact ih1.elim
  | cont l rs1 => rw [h1] at ih1; exact ih1.elim

/-- **A `for` loop** (no `break`/`continue` inside): `loopStart`, `addScope`, `pushMark`, the
initialiser, the jump to the test, the iterations (`FClaimF`), the end label, `clearMark`,
`removeScope`, `push nil` — against `newFrame`, `eval init`, `Ref.loop`. -/
theorem fclaimE_for {n : Nat} (hE : FClaimE n) (hF : FClaimF n) {fnOk : Bool} {self : String} {label : Option String}
    {init test incr : Expr} {body : List Expr} (hinit : Ff fnOk self init = true) (htest : Ff fnOk self test = true)
    (hincr : Ff fnOk self incr = true) (hbody : FfList fnOk self body = true) (isFn : Nat → Bool) (c : Ctx) (gs : GS)
    (r : (List Instr × Bool) × GS)
    (hc : (compile isFn c (.for_ label init test incr body)).run gs = .ok r) (hfn : FnameOk self c)
    (m : Nat → Nat) (s : St) (rs : Ref.St) (env : Nat) (pre post : List Instr) (hrel : RelF m s rs env)
    (hgen : fnOk = true → GenOk gs r.2 s) (hseg : Seg s pre r.1.1 post) :
    SimF r.1.1 m s rs env (Ref.eval (n + 1) (.for_ label init test incr body) env rs) := by
  rw [compile_for_eq] at hc
  cases hb : (compileBegin isFn { c with tail := false, scopes := c.scopes + 1 } body).run (forGs gs c label) with
  | error e => rw [hb] at hc; cases hc
  | ok vb =>
  obtain ⟨rb, g2⟩ := vb
  rw [hb] at hc; simp only at hc
  cases hi : (compile isFn { c with tail := false, scopes := c.scopes + 1 } init).run g2 with
  | error e => rw [hi] at hc; cases hc
  | ok vi =>
  obtain ⟨ri, g3⟩ := vi
  rw [hi] at hc; simp only at hc
  cases ht : (compile isFn { c with tail := false, scopes := c.scopes + 1 } test).run g3 with
  | error e => rw [ht] at hc; cases hc
  | ok vt =>
  obtain ⟨rt, g4⟩ := vt
  rw [ht] at hc; simp only at hc
  cases hs : (compile isFn { c with tail := false, scopes := c.scopes + 1 } incr).run g4 with
  | error e => rw [hs] at hc; cases hc
  | ok vs =>
  obtain ⟨rsn, g5⟩ := vs
  rw [hs] at hc; simp only at hc
  injection hc with hc
  subst hc
  simp only at hseg hgen ⊢
  have hfn' : FnameOk self { c with tail := false, scopes := c.scopes + 1 } := hfn
  have hkb := compileBeginAny_keep_Ff hbody hb hfn'
  have hki := compile_keep_Ff hinit hi hfn'
  have hkt := compile_keep_Ff htest ht hfn'
  have hks := compile_keep_Ff hincr hs hfn'
  -- the templates of the four parts
  have hg0 : fnOk = true → GenOk (forGs gs c label) g5 s := fun h => ⟨(hgen h).live, (hgen h).main, (hgen h).len, (hgen h).tmpl,
    (hgen h).loops.for_body (((hkb.1.trans hki.1).trans hkt.1).trans hks.1) (KeepFns.refl g5)⟩
  have hgb : fnOk = true → GenOk (forGs gs c label) g2 s := fun h => (hg0 h).first ((hki.1.trans hkt.1).trans hks.1)
  have hgi : fnOk = true → GenOk g2 g3 s := fun h => ((hg0 h).rest hkb.1).first (hkt.1.trans hks.1)
  have hgt : fnOk = true → GenOk g3 g4 s := fun h => ((hg0 h).rest (hkb.1.trans hki.1)).first hks.1
  have hgs : fnOk = true → GenOk g4 g5 s := fun h => (hg0 h).rest ((hkb.1.trans hki.1).trans hkt.1)
  -- the function laid out
  have hin : InFn s (forFull pre post gs.loops.length ri.1 rt.1 rsn.1 rb.1) := by
    have := hseg.inFn; rw [forFull_eq] at this; exact this
  have hpc : s.pc = (pre.length : Int) := hseg.pc
  rw [Ref.eval]
  show SimF _ m s rs env
    (match Ref.eval n init rs.frames.length (Ref.newFrame rs env).2 with
     | .ok _ s' => Ref.loop n label test incr body rs.frames.length s'
     | .brk l s' => if l.isNone ∨ l = label then .ok .nil s' else .brk l s'
     | r => r)
  -- loopStart, addScope, pushMark, label
  have a0 : At s pre (.loopStart gs.loops.length) ([.addScope, .pushMark gs.loops.length, .label] ++ ri.1
      ++ fMid gs.loops.length rsn.1 ++ rsn.1 ++ [.popUntilMark gs.loops.length, .label] ++ rt.1 ++ fBr rb.1 ++ rb.1
      ++ fTl gs.loops.length rsn.1 rt.1 rb.1 ++ post) := hin.at (by simp [forFull]) hpc
  have r0 : ReachX s (s.jmp (s.pc + 1) s.data) := (Reach.step a0 (fun f => exec_loopStart f _ s)).toX
  have a1 : At (s.jmp (s.pc + 1) s.data) (pre ++ [.loopStart gs.loops.length]) .addScope
      ([.pushMark gs.loops.length, .label] ++ ri.1
      ++ fMid gs.loops.length rsn.1 ++ rsn.1 ++ [.popUntilMark gs.loops.length, .label] ++ rt.1 ++ fBr rb.1 ++ rb.1
      ++ fTl gs.loops.length rsn.1 rt.1 rb.1 ++ post) :=
    (hin.of_fn (σ' := s.jmp (s.pc + 1) s.data) rfl).at (by simp [forFull]) (by rw [St.jmp_pc, hpc]; simp)
  have r1 : ReachX (s.jmp (s.pc + 1) s.data) (s.jmp (s.pc + 1) s.data).pushScope :=
    (Reach.step a1 (fun f => exec_addScope f _)).toX
  have rel2' : RelF m (s.jmp (s.pc + 1) s.data).pushScope (Ref.newFrame rs env).2 rs.frames.length := (hrel.jmp _ _).pushScope
  generalize hs2 : (s.jmp (s.pc + 1) s.data).pushScope = s2 at r1 rel2'
  have hin2 : InFn s2 (forFull pre post gs.loops.length ri.1 rt.1 rsn.1 rb.1) := by subst hs2; exact hin.of_fn rfl
  have hpc2 : s2.pc = ((pre.length + 2 : Nat) : Int) := by
    subst hs2; show s.pc + 1 + 1 = _; rw [hpc]; push_cast; omega
  have hd2 : s2.data = s.data := by subst hs2; rfl
  have hfr2 : FrameF s.pushScope s2 := by
    subst hs2; exact ⟨⟨rfl, rfl, rfl, rfl, Nat.le_refl _, fun _ _ => rfl, Nat.le_refl _, fun _ _ => rfl⟩, Nat.le_refl _, fun _ _ => rfl⟩
  have hfn2 : fnOf s2 s2.curfunc = fnOf s s.curfunc := by subst hs2; rfl
  have hfns2 : s2.fns = s.fns := by subst hs2; rfl
  have a2 : At s2 (pre ++ [.loopStart gs.loops.length, .addScope]) (.pushMark gs.loops.length) ([.label] ++ ri.1
      ++ fMid gs.loops.length rsn.1 ++ rsn.1 ++ [.popUntilMark gs.loops.length, .label] ++ rt.1 ++ fBr rb.1 ++ rb.1
      ++ fTl gs.loops.length rsn.1 rt.1 rb.1 ++ post) := hin2.at (by simp [forFull]) (by rw [hpc2]; simp)
  have r2 := (Reach.step a2 (fun f => exec_pushMark f gs.loops.length s2)).toX
  have a3 : At (s2.jmp (s2.pc + 1) (some (.mark gs.loops.length) :: s2.data))
      (pre ++ [.loopStart gs.loops.length, .addScope, .pushMark gs.loops.length]) .label (ri.1
      ++ fMid gs.loops.length rsn.1 ++ rsn.1 ++ [.popUntilMark gs.loops.length, .label] ++ rt.1 ++ fBr rb.1 ++ rb.1
      ++ fTl gs.loops.length rsn.1 rt.1 rb.1 ++ post) :=
    (hin2.of_fn (σ' := s2.jmp (s2.pc + 1) (some (.mark gs.loops.length) :: s2.data)) rfl).at (by simp [forFull])
      (by rw [St.jmp_pc, hpc2]; simp; omega)
  have r3 := reachX_label a3
  generalize hs4 : ((s2.jmp (s2.pc + 1) (some (.mark gs.loops.length) :: s2.data)).jmp
    ((s2.jmp (s2.pc + 1) (some (.mark gs.loops.length) :: s2.data)).pc + 1)
    (s2.jmp (s2.pc + 1) (some (.mark gs.loops.length) :: s2.data)).data) = s4 at r3
  have hin4 : InFn s4 (forFull pre post gs.loops.length ri.1 rt.1 rsn.1 rb.1) := by subst hs4; exact hin2.of_fn rfl
  have hpc4 : s4.pc = ((pre.length + 4 : Nat) : Int) := by
    subst hs4; simp only [St.jmp_pc, hpc2]; push_cast; omega
  have hd4 : s4.data = some (.mark gs.loops.length) :: s.data := by subst hs4; rw [St.jmp_data, St.jmp_data, hd2]
  have rel4 : RelF m s4 (Ref.newFrame rs env).2 rs.frames.length := by subst hs4; exact (rel2'.jmp _ _).jmp _ _
  have hfr24 : FrameF s2 s4 := by subst hs4; exact (FrameF.jmp _ _ _).trans (FrameF.jmp _ _ _)
  have hfn4 : fnOf s4 s4.curfunc = fnOf s s.curfunc := by subst hs4; exact hfn2
  have hfns4 : s4.fns = s.fns := by subst hs4; exact hfns2
  have hk04 : FnsKeep s s4 := FnsKeep.of_fns_eq hfns4 ⟨Nat.le_trans hfr2.loopsLen hfr24.loopsLen, fun id hid =>
    (hfr24.loops id (Nat.lt_of_lt_of_le hid hfr2.loopsLen)).trans (hfr2.loops id hid)⟩
  have hreach4 : ReachX s s4 := ((r0.trans r1).trans r2).trans r3
  -- the initialiser
  have hseg4 : Seg s4 (pre ++ fHd gs.loops.length) ri.1 (fMid gs.loops.length rsn.1 ++ rsn.1
      ++ [.popUntilMark gs.loops.length, .label] ++ rt.1 ++ fBr rb.1 ++ rb.1
      ++ fTl gs.loops.length rsn.1 rt.1 rb.1 ++ post) := hin4.seg (by simp [forFull]) (by rw [hpc4]; simp)
  have ih4 := hE fnOk self init hinit isFn _ g2 (ri, g3) hi hfn' m s4 _ _ _ _ rel4 (fun h => (hgi h).mono hk04) hseg4
  have hs4' := seg_pumF hin4 (P := pre ++ fHd gs.loops.length) (c := ri.1)
    (Q := [.jump ((rsn.1.length : Int) + 3), .label] ++ rsn.1 ++ [.popUntilMark gs.loops.length, .label] ++ rt.1
      ++ fBr rb.1 ++ rb.1 ++ fTl gs.loops.length rsn.1 rt.1 rb.1 ++ post) (by simp [forFull]) (by rw [hpc4]; simp) hd4 ih4
  have hlen : (forCode gs.loops.length ri.1 rt.1 rsn.1 rb.1).length
      = ri.1.length + rt.1.length + rsn.1.length + rb.1.length + 17 := by
    rw [forCode_eq]; simp only [List.length_append, List.length_cons, List.length_nil]; omega
  cases h1 : Ref.eval n init rs.frames.length (Ref.newFrame rs env).2 with
  | ok vi rs2 =>
    rw [h1] at hs4'
    obtain ⟨s6, m6, r6, hpc6, hd6, hfn6, rel6, hm6, ext6, fr6⟩ := hs4'
    simp only
    have hin6 : InFn s6 (forFull pre post gs.loops.length ri.1 rt.1 rsn.1 rb.1) := hin4.of_fn hfn6
    have hpc6' : s6.pc = ((pre.length + ri.1.length + 5 : Nat) : Int) := by rw [hpc6, hpc4]; push_cast; omega
    have a6 : At s6 (pre ++ fHd gs.loops.length ++ ri.1 ++ [.popUntilMark gs.loops.length])
        (.jump ((rsn.1.length : Int) + 3)) ([.label] ++ rsn.1 ++ [.popUntilMark gs.loops.length, .label] ++ rt.1
        ++ fBr rb.1 ++ rb.1 ++ fTl gs.loops.length rsn.1 rt.1 rb.1 ++ post) :=
      hin6.at (by simp [forFull]) (by rw [hpc6']; simp; omega)
    have r7 := (reach_jump a6 (by rw [hpc6']; push_cast; omega)
      (by rw [hpc6']; simp only [List.length_append, List.length_cons, List.length_nil]; push_cast; omega)).toX
    have hfr47 : FrameF s4 (s6.jmp (s6.pc + ((rsn.1.length : Int) + 3)) s6.data) := fr6.trans (FrameF.jmp _ _ _)
    have hgen7 : fnOk = true → GenOk (forGs gs c label) g2 (s6.jmp (s6.pc + ((rsn.1.length : Int) + 3)) s6.data)
        ∧ GenOk g3 g4 (s6.jmp (s6.pc + ((rsn.1.length : Int) + 3)) s6.data)
        ∧ GenOk g4 g5 (s6.jmp (s6.pc + ((rsn.1.length : Int) + 3)) s6.data) := fun h =>
      ⟨((hgb h).mono hk04).frame hfr47.toFrame, ((hgt h).mono hk04).frame hfr47.toFrame, ((hgs h).mono hk04).frame hfr47.toFrame⟩
    have hloop := hF fnOk self label test incr body htest hincr hbody isFn _ _ rb g2 _ rt g4 _ rsn g5 hb ht hs hfn'
      gs.loops.length ri.1 pre post m6 (s6.jmp (s6.pc + ((rsn.1.length : Int) + 3)) s6.data) rs2 rs.frames.length s.data
      (hin6.of_fn rfl) (by rw [St.jmp_pc, hpc6']; push_cast; omega) hd6 (rel6.jmp _ _) hgen7
    have hreach7 : ReachX s (s6.jmp (s6.pc + ((rsn.1.length : Int) + 3)) s6.data) := (hreach4.trans r6).trans r7
    cases h2 : Ref.loop n label test incr body rs.frames.length rs2 with
    | ok v rs3 =>
      rw [h2] at hloop
      obtain ⟨s8, m8, r8, hpc8, hd8, hfn8, rel8, hm8, ext8, fr8⟩ := hloop
      have hv : v = .nil := ref_loop_nil _ _ _ _ _ _ _ _ _ h2
      subst hv
      have hin8 : InFn s8 (forFull pre post gs.loops.length ri.1 rt.1 rsn.1 rb.1) := (hin6.of_fn rfl).of_fn hfn8
      -- end label, clearMark, removeScope, push nil
      have a8 : At s8 (pre ++ fHd gs.loops.length ++ ri.1 ++ fMid gs.loops.length rsn.1 ++ rsn.1
          ++ [.popUntilMark gs.loops.length, .label] ++ rt.1 ++ fBr rb.1 ++ rb.1
          ++ [.popUntilMark gs.loops.length, .jump (-((rsn.1.length : Int) + rt.1.length + rb.1.length + 6))]) .label
          ([.clearMark gs.loops.length, .removeScope, .push .nil] ++ post) :=
        hin8.at (by simp [forFull]) (by rw [hpc8]; simp; omega)
      have r9 := reachX_label a8
      have a9 : At (s8.jmp (s8.pc + 1) s8.data) (pre ++ fHd gs.loops.length ++ ri.1 ++ fMid gs.loops.length rsn.1 ++ rsn.1
          ++ [.popUntilMark gs.loops.length, .label] ++ rt.1 ++ fBr rb.1 ++ rb.1
          ++ [.popUntilMark gs.loops.length, .jump (-((rsn.1.length : Int) + rt.1.length + rb.1.length + 6)), .label])
          (.clearMark gs.loops.length) ([.removeScope, .push .nil] ++ post) :=
        (hin8.of_fn (σ' := s8.jmp (s8.pc + 1) s8.data) rfl).at (by simp [forFull]) (by rw [St.jmp_pc, hpc8]; simp; omega)
      have r10 := (Reach.step a9 (fun f => exec_clearMark f gs.loops.length _ s.data hd8)).toX
      generalize hs10 : (s8.jmp (s8.pc + 1) s8.data).jmp ((s8.jmp (s8.pc + 1) s8.data).pc + 1) s.data = s10 at r10
      have hin10 : InFn s10 (forFull pre post gs.loops.length ri.1 rt.1 rsn.1 rb.1) := by subst hs10; exact hin8.of_fn rfl
      have hpc10 : s10.pc = ((pre.length + ri.1.length + rsn.1.length + rt.1.length + rb.1.length + 15 : Nat) : Int) := by
        subst hs10; simp only [St.jmp_pc, hpc8]; push_cast; omega
      have rel10 : RelF m8 s10 rs3 rs.frames.length := by subst hs10; exact (rel8.jmp _ _).jmp _ _
      have hfr8_10 : FrameF s8 s10 := by subst hs10; exact (FrameF.jmp _ _ _).trans (FrameF.jmp _ _ _)
      have hd10 : s10.data = s.data := by subst hs10; rfl
      have hfn10 : fnOf s10 s10.curfunc = fnOf s s.curfunc := by
        subst hs10; exact (hfn8.trans (hfn6.trans hfn4))
      -- everything between `addScope` and here left the control stacks alone
      have hfr_in : FrameF s.pushScope s10 :=
        (((hfr2.trans hfr24).trans fr6).trans ((FrameF.jmp _ _ _).trans fr8)).trans hfr8_10
      have hlin10 : s10.linear = some s.scopes.length :: s.linear := hfr_in.linear
      have a10 : At s10 (pre ++ fHd gs.loops.length ++ ri.1 ++ fMid gs.loops.length rsn.1 ++ rsn.1
          ++ [.popUntilMark gs.loops.length, .label] ++ rt.1 ++ fBr rb.1 ++ rb.1
          ++ [.popUntilMark gs.loops.length, .jump (-((rsn.1.length : Int) + rt.1.length + rb.1.length + 6)), .label,
              .clearMark gs.loops.length]) .removeScope ([.push .nil] ++ post) :=
        hin10.at (by simp [forFull]) (by rw [hpc10]; simp; omega)
      have r11 : ReachX s10 s10.popScope := (Reach.step a10 (fun f => by
        rw [exec_removeScope, hlin10]
        show _ = (Except.ok (), { s10 with pc := s10.pc + 1, linear := s10.linear.tail })
        rw [hlin10]; rfl)).toX
      have a11 : At s10.popScope (pre ++ fHd gs.loops.length ++ ri.1 ++ fMid gs.loops.length rsn.1 ++ rsn.1
          ++ [.popUntilMark gs.loops.length, .label] ++ rt.1 ++ fBr rb.1 ++ rb.1
          ++ [.popUntilMark gs.loops.length, .jump (-((rsn.1.length : Int) + rt.1.length + rb.1.length + 6)), .label,
              .clearMark gs.loops.length, .removeScope]) (.push .nil) post :=
        (hin10.of_fn (σ' := s10.popScope) rfl).at (by simp [forFull])
          (by show s10.pc + 1 = _; rw [hpc10]; simp; omega)
      have r12 := reach_push a11 |>.toX
      -- the relation after the loop
      have hflags : ∀ i, i < s.scopes.length → isFnScope s10 i = isFnScope s i := fun i hi => by
        rw [hfr_in.flags i (by show i < (s.scopes ++ [_]).length; simp; omega), isFnScope_pushScope, if_pos hi]
      have hfl : s.fns.length ≤ s10.fns.length := hfr_in.fnsLen
      have hfo : ∀ id, id < s.fns.length → fnOf s10 id = fnOf s id := fun id hid => hfr_in.fns id hid
      have hext : FramesExt rs rs3 := (FramesExt.newFrame rs env).trans (ext6.trans ext8).1
      have hframe : FrameF s s10.popScope :=
        ⟨⟨by show s10.linear.tail = _; rw [hlin10]; rfl, hfr_in.curfunc, hfr_in.addr, hfr_in.susp, hfl, hfo, hfr_in.loopsLen,
          hfr_in.loops⟩, Nat.le_trans (by show s.scopes.length ≤ (s.scopes ++ [_]).length; simp) hfr_in.scLen, hflags⟩
      have hm08 : MExt s m m8 := fun id hid =>
        (hm8 id (Nat.lt_of_lt_of_le (by rw [hfns4]; exact hid) fr6.fnsLen)).trans (hm6 id (by rw [hfns4]; exact hid))
      refine ⟨_, m8, .nil, (((((hreach7.trans r8).trans r9).trans r10).trans r11).trans r12), ⟨hfn10, ?_, ?_⟩, rfl,
        (hrel.back (s₅ := s10.popScope) rel10 rfl rfl rfl rfl (by show s10.linear.tail = _; rw [hlin10]; rfl) hfr_in.curfunc
          hflags hfl hfo hext ⟨hfr_in.loopsLen, hfr_in.loops⟩).jmp _ _, hm08, ⟨hext, fun i c' hc' => (ext6.trans ext8).2 i c' hc'⟩, hframe.trans (FrameF.jmp _ _ _),
        vOk_lit .nil (fun _ _ _ => rfl)⟩
      · show s10.pc + 1 + 1 = _
        rw [hpc10, hpc, hlen]; push_cast; omega
      · show some Val.nil :: s10.data = _
        rw [hd10]
    | err rs3 => rw [h2] at hloop; exact FailsX.of_reach hreach7 hloop
    | timeout => trivial
    | brk l rs3 => rw [h2] at hloop; exact hloop.elim
    | cont l rs3 => rw [h2] at hloop; exact hloop.elim
  | err rs2 => rw [h1] at hs4'; exact FailsX.of_reach hreach4 hs4'
  | timeout => trivial
  | brk l rs2 => rw [h1] at hs4'; exact hs4'.elim
  | cont l rs2 => rw [h1] at hs4'; exact hs4'.elim

end ZygoVerif.Sim
