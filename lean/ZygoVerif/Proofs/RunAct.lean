/-
Proofs/RunAct.lean — one activation, followed through a run (for C09).

`VmStep` is one successful instruction of `runLoop`; `ReachAbove a` follows steps through states
whose address stack never gets shorter than `a`: as long as that holds, the activation that was
entered with address depth `a` has not returned. From the calling contract: such a run keeps the
table invariant and the stack of activations above (and including) that activation; whenever
it is back at address depth `a` it is IN that activation, and whenever it is moreover back at
instruction 0 (a self tail call) the data and scope stacks have the depths of the first entry.
-/
import ZygoVerif.Proofs.RunPrim
import ZygoVerif.Proofs.TailSite
import ZygoVerif.Proofs.TailVM
set_option linter.unusedSimpArgs false
set_option linter.unusedVariables false
namespace ZygoVerif.RunInv
open ZygoVerif.Core ZygoVerif.VM ZygoVerif.Bal ZygoVerif.Refine

/-- one successful step of the loop `runLoop` -/
def VmStep (s s' : St) : Prop :=
  ∃ fuel i, ¬ (s.pc = -1 ∨ s.pc ≥ curSize s) ∧ (fnOf s s.curfunc).code[s.pc.toNat]? = some i ∧
    (exec (fuel + 1) i).run s = (.ok (), s')

/-- steps through states whose address stack has at least `a` entries -/
inductive ReachAbove (a : Nat) : St → St → Prop
  | refl {s : St} : a ≤ s.addr.length → ReachAbove a s s
  | step {s s' s'' : St} : a ≤ s.addr.length → VmStep s s' → ReachAbove a s' s'' → ReachAbove a s s''

theorem ReachAbove.trans {a : Nat} {s s' s'' : St} (h1 : ReachAbove a s s') (h2 : ReachAbove a s' s'') : ReachAbove a s s'' := by
  induction h1 with
  | refl _ => exact h2
  | step hs hv _ ih => exact ReachAbove.step hs hv (ih h2)

theorem ReachAbove.last {a : Nat} {s s' : St} (h : ReachAbove a s s') : a ≤ s'.addr.length := by
  induction h with
  | refl h => exact h
  | step _ _ _ ih => exact ih

theorem Chain.A_lt {b : Base} {s : St} : ∀ (acts : List Act) (D : List Cell) (S : Nat) (addr : List (Option (Nat × Int))),
    Chain b s acts D S addr → (∀ x ∈ acts, x.A < addr.length) ∧
      (b.main = false → (∀ x ∈ acts, b.addr.length < x.A) ∧ b.addr.length < addr.length)
  | [], _, _, _, h => ⟨fun x hx => (by cases hx), fun hm => ⟨fun x hx => (by cases hx), by
      have h3 := h.2.2
      rw [hm] at h3
      simp only [Bool.false_eq_true, if_false] at h3
      rw [h3]; simp⟩⟩
  | a :: r, D, S, addr, h => by
    obtain ⟨r', tail, h1, _, _, h4, _, _, h6⟩ := h
    obtain ⟨ih1, ih2⟩ := Chain.A_lt r _ _ _ h6
    rw [h1]
    simp only [List.length_cons]
    refine ⟨fun x hx => ?_, fun hm => ⟨fun x hx => ?_, by have := (ih2 hm).2; omega⟩⟩
    · rcases List.mem_cons.mp hx with rfl | hx
      · omega
      · have := ih1 x hx; omega
    · rcases List.mem_cons.mp hx with rfl | hx
      · have := (ih2 hm).2; omega
      · exact (ih2 hm).1 x hx

/-- the activation `a0` (on the activations `rest0`) is on the stack of activations of `s` -/
def Holds (b : Base) (a0 : Act) (rest0 : List Act) (s : St) : Prop :=
  WF s ∧ ∃ upper top rest, Running b s top rest ∧ top :: rest = upper ++ a0 :: rest0

theorem holds_step_ext {b : Base} {a0 : Act} {rest0 : List Act} {s s' : St} (h : Holds b a0 rest0 s) (hv : VmStep s s')
    (ha : a0.A ≤ s'.addr.length) : Holds b a0 rest0 s' ∧ TExt s s' ∧ s'.suspended = s.suspended := by
  obtain ⟨hw, upper, top, rest, hr, hst⟩ := h
  obtain ⟨fuel, i, _, hf, hex⟩ := hv
  obtain ⟨hw', he, hn, hsu⟩ := (allSpec' (fuel + 1)).exec b s s' top rest i hw hr hf hex
  refine ⟨?_, he, hsu⟩
  have hlt := Chain.A_lt _ _ _ _ hr.chain
  have hmem : a0 = top ∨ a0 ∈ rest := by
    have : a0 ∈ top :: rest := by rw [hst]; simp
    simpa using this
  rcases hn with h1 | ⟨c, h1⟩ | ⟨a, r, hrest, h1⟩ | hfin
  · exact ⟨hw', upper, top, rest, h1, hst⟩
  · exact ⟨hw', c :: upper, c, top :: rest, h1, by rw [hst]; rfl⟩
  · cases upper with
    | nil =>
      exfalso
      simp only [List.nil_append, List.cons.injEq] at hst
      obtain ⟨rfl, hr0⟩ := hst
      have h1a := h1.topA
      have htop := hr.topA
      -- the caller's depth is one less than the callee's
      obtain ⟨r', tail, e1, _, _, e4, _, _⟩ := (by rw [hrest] at hr; exact hr.chain : Chain b s (a :: r) top.D top.S s.addr)
      have : s.addr.length = a.A + 1 := by rw [e1, e4]; simp
      omega
    | cons u us =>
      simp only [List.cons_append, List.cons.injEq] at hst
      exact ⟨hw', us, a, r, h1, by rw [← hrest]; exact hst.2⟩
  · exfalso
    have hfa := hfin.addr
    rw [hfa] at ha
    obtain ⟨hl1, hl2⟩ := hlt.2 hfin.notMain
    rcases hmem with rfl | hm
    · have := hr.topA
      omega
    · have h2 := hl1 a0 hm
      omega

theorem holds_step {b : Base} {a0 : Act} {rest0 : List Act} {s s' : St} (h : Holds b a0 rest0 s) (hv : VmStep s s')
    (ha : a0.A ≤ s'.addr.length) : Holds b a0 rest0 s' := (holds_step_ext h hv ha).1

theorem holds_reach {b : Base} {a0 : Act} {rest0 : List Act} {s s' : St} (hr : ReachAbove a0.A s s') (h : Holds b a0 rest0 s) :
    Holds b a0 rest0 s' := by
  induction hr with
  | refl _ => exact h
  | step _ hv hrest ih =>
    exact ih (holds_step h hv (by
      cases hrest with
      | refl h' => exact h'
      | step h' _ _ => exact h'))

/-- back at the address depth of the activation, the run is IN the activation -/
theorem holds_top {b : Base} {a0 : Act} {rest0 : List Act} {s : St} (h : Holds b a0 rest0 s) (ha : s.addr.length = a0.A) :
    WF s ∧ Running b s a0 rest0 := by
  obtain ⟨hw, upper, top, rest, hr, hst⟩ := h
  cases upper with
  | nil =>
    simp only [List.nil_append, List.cons.injEq] at hst
    obtain ⟨rfl, rfl⟩ := hst
    exact ⟨hw, hr⟩
  | cons u us =>
    exfalso
    simp only [List.cons_append, List.cons.injEq] at hst
    have hm : a0 ∈ rest := by rw [hst.2]; simp
    have := (Chain.A_lt _ _ _ _ hr.chain).1 a0 hm
    have := hr.topA
    omega

/-- at instruction 0 of an activation: exactly the formals' worth of operands on the data the
activation was entered with, the scope depth it was entered with -/
theorem Running.at_pc0 {b : Base} {s : St} {top : Act} {rest : List Act} (h : Running b s top rest) (hpc : s.pc = 0)
    (hA : top.A ≠ 0) :
    s.data.map cellOf = List.replicate (fnB s top.f).entryCount .val ++ top.D ∧ s.linear.length = top.S := by
  obtain ⟨a, own, hann, hd, hconc, hsc, _⟩ := h.inv
  obtain ⟨t, ht, hle⟩ := h.ok.entry hA
  have h0 : (absC s).pc = 0 := by show s.pc.toNat = 0; rw [hpc]; rfl
  rw [h0, ht] at hann
  cases hann
  obtain ⟨hk, hb, hf⟩ := le_elim _ _ hle
  have hfr : a.frames = [] := by
    have := framesLe_length _ _ hf
    simp only [Fn.entry, List.length_nil] at this
    exact List.length_eq_zero_iff.mp this.symm
  rw [hfr] at hconc
  cases hconc
  refine ⟨?_, ?_⟩
  · rw [show s.data.map cellOf = (absC s).data from rfl, hd, ← hb]; rfl
  · rw [show s.linear.length = (absC s).sc from rfl, hsc, ← hk]; rfl

/-- **Every re-entry of an activation at instruction 0 has the depths of its first entry.**
`E` is the entry of the top activation of a `Running` loop; the run goes on — through nested
calls, callees, tail jumps, any number of iterations — without the address stack ever getting
shorter than at `E` (the activation has not returned); whenever it is back at that address depth
and at instruction 0, it is in the same function with data and scope stacks of the depths of `E`. -/
theorem reentry_depths (b : Base) (E E' : St) (top : Act) (rest : List Act) (hw : WF E) (hr : Running b E top rest)
    (hpc : E.pc = 0) (hA0 : E.addr ≠ []) (hreach : ReachAbove E.addr.length E E') (ha : E'.addr.length = E.addr.length) (hpc' : E'.pc = 0) :
    WF E' ∧ Running b E' top rest ∧ E'.curfunc = E.curfunc ∧ E'.data.length = E.data.length ∧
      E'.linear.length = E.linear.length := by
  have hA := hr.topA
  have hh : Holds b top rest E := ⟨hw, [], top, rest, hr, rfl⟩
  obtain ⟨hw', hr'⟩ := holds_top (holds_reach (by rw [hA]; exact hreach) hh) (by rw [ha, hA])
  have hA0' : top.A ≠ 0 := by rw [hA]; exact fun h => hA0 (List.length_eq_zero_iff.mp h)
  obtain ⟨d1, l1⟩ := hr.at_pc0 hpc hA0'
  obtain ⟨d2, l2⟩ := hr'.at_pc0 hpc' hA0'
  have hfb : (fnB E' top.f).entryCount = (fnB E top.f).entryCount := by
    -- the function object of the activation is the same (tables only grow)
    have h1 := hr.ok.len
    have h2 := hr'.ok.len
    have e1 : (fnB E top.f).entryCount = (fnOf E top.f).params.length := rfl
    have e2 : (fnB E' top.f).entryCount = (fnOf E' top.f).params.length := rfl
    -- both describe `replicate entryCount val ++ top.D` against the same entry annotation
    obtain ⟨t1, ht1, hle1⟩ := hr.ok.entry hA0'
    obtain ⟨t2, ht2, hle2⟩ := hr'.ok.entry hA0'
    rw [ht1] at ht2
    cases ht2
    have b1 := (le_elim _ _ hle1).2.1
    have b2 := (le_elim _ _ hle2).2.1
    simp only [Fn.entry] at b1 b2
    omega
  refine ⟨hw', hr', hr'.cur.trans hr.cur.symm, ?_, by rw [l2, l1]⟩
  have := congrArg List.length d1
  have := congrArg List.length d2
  simp only [List.length_map, List.length_append, List.length_replicate] at *
  omega

/-! ## The tail sequence is a stretch of the same activation -/
open ZygoVerif.TailVM

theorem VmStep.at {s s1 : St} {p : Nat} {i : Instr} {is : List Instr} (h : At s p (i :: is)) (n : Nat)
    (hex : (exec (n + 1) i).run s = (.ok (), s1)) : VmStep s s1 :=
  ⟨n, i, h.fetch.1, h.fetch.2, hex⟩

theorem reachAbove_removeScopes :
    ∀ (m : Nat) (s : St) (p : Nat) (rest : List Instr) (ext L : List (Option Nat)),
      At s p (List.replicate m Instr.removeScope ++ rest) → s.linear = ext ++ L → ext.length = m →
      ReachAbove s.addr.length s { s with pc := s.pc + m, linear := L } ∧
      At { s with pc := s.pc + m, linear := L } (p + m) rest := by
  intro m
  induction m with
  | zero =>
    intro s p rest ext L h hl he
    have : ext = [] := List.length_eq_zero_iff.mp he
    subst this
    simp only [List.nil_append] at hl
    have hs : ({ s with pc := s.pc + (0 : Nat), linear := L } : St) = s := by
      cases s; simp at hl; simp [hl]
    rw [hs]
    exact ⟨.refl (Nat.le_refl _), by simpa using h⟩
  | succ m ih =>
    intro s p rest ext L h hl he
    cases ext with
    | nil => simp at he
    | cons top ext' =>
      simp only [List.replicate_succ, List.cons_append] at h
      have hl' : s.linear = top :: (ext' ++ L) := by simpa using hl
      have hex := exec_removeScope 0 s top (ext' ++ L) hl'
      obtain ⟨s1, hs1⟩ : ∃ s1 : St, s1 = { s with pc := s.pc + 1, linear := ext' ++ L } := ⟨_, rfl⟩
      rw [← hs1] at hex
      have hat1 : At s1 (p + 1) (List.replicate m Instr.removeScope ++ rest) :=
        ⟨by simp [hs1, h.pc], by simpa [hs1, fnOf] using h.compiled, by simpa [hs1, fnOf] using h.code.head.2.2⟩
      obtain ⟨ihr, iha⟩ := ih s1 (p + 1) rest ext' L hat1 (by simp [hs1]) (by simpa using he)
      have hst : ({ s1 with pc := s1.pc + (m : Int), linear := L } : St) = { s with pc := s.pc + ((m + 1 : Nat) : Int), linear := L } := by
        simp [hs1]; omega
      rw [hst] at ihr iha
      have ha1 : s1.addr.length = s.addr.length := by rw [hs1]
      rw [ha1] at ihr
      refine ⟨.step (Nat.le_refl _) (VmStep.at h 0 hex) ihr, ?_⟩
      have e2 : p + (m + 1) = p + 1 + m := by omega
      rw [e2]
      exact iha

/-- the `k+3` steps of the tail sequence never go below the address depth they start at -/
theorem tailSeq_reachAbove (s : St) (p : Nat) (x : String) (nargs k : Nat)
    (rest : List Instr) (ext L : List (Option Nat)) (data' : List (Option Val))
    (hat : At s p (tailSeq x nargs k ++ rest))
    (hprep : ∀ n, (exec (n + 1) (.prepareCall x nargs)).run s = (.ok (), { s with pc := s.pc + 1, data := data' }))
    (hlin : s.linear = ext ++ L) (he : ext.length = k + 1) :
    ReachAbove s.addr.length s { s with pc := 0, linear := L, data := data' } := by
  simp only [tailSeq, List.append_assoc, List.cons_append, List.nil_append] at hat
  obtain ⟨s1, hs1⟩ : ∃ s1 : St, s1 = { s with pc := s.pc + 1, data := data' } := ⟨_, rfl⟩
  have h1 : VmStep s s1 := VmStep.at hat 0 (by rw [hs1]; exact hprep 0)
  have hat1 : At s1 (p + 1) (List.replicate (k + 1) Instr.removeScope ++ (Instr.goto 0 :: rest)) :=
    hat.next (by simp [hs1]) (by simp [hs1]) (by simp [hs1])
  obtain ⟨h2, hat2⟩ := reachAbove_removeScopes (k + 1) s1 (p + 1) (Instr.goto 0 :: rest) ext L hat1
    (by simp [hs1, hlin]) he
  obtain ⟨s2, hs2⟩ : ∃ s2 : St, s2 = { s1 with pc := s1.pc + ((k + 1 : Nat) : Int), linear := L } := ⟨_, rfl⟩
  rw [← hs2] at h2 hat2
  have hsz : ((0 : Nat) : Int) ≤ curSize s2 := by
    have : curSize s2 = ((fnOf s2 s2.curfunc).code.length : Int) := by simp [curSize, hat2.compiled]
    rw [this]; omega
  have h3 : VmStep s2 { s2 with pc := ((0 : Nat) : Int) } := VmStep.at hat2 0 (exec_goto 0 s2 0 hsz)
  have e : ({ s2 with pc := ((0 : Nat) : Int) } : St) = { s with pc := 0, linear := L, data := data' } := by
    simp [hs2, hs1]
  rw [e] at h3
  have ha1 : s1.addr.length = s.addr.length := by rw [hs1]
  have ha2 : s2.addr.length = s.addr.length := by rw [hs2, hs1]
  rw [ha1] at h2
  exact .step (Nat.le_refl _) h1 (h2.trans (.step (by rw [ha2]; exact Nat.le_refl _) h3 (.refl (Nat.le_refl _))))

end ZygoVerif.RunInv
