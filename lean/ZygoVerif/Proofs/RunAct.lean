/-
Proofs/RunAct.lean — one activation, followed through a run (for C09).

`VmStep` is one successful instruction of `runLoop`; `ReachAbove a` follows steps through states
whose address stack never gets shorter than `a`: as long as that holds, the activation that was
entered with address depth `a` has not returned. From the calling contract: such a run keeps the
table invariant and the stack of activations above (and including) that activation; whenever
it is back at address depth `a` it is IN that activation, and whenever it is moreover back at
instruction 0 (a self tail call) the data and scope stacks have the depths of the first entry.
-/
import ZygoVerif.Proofs.RunPrim
import ZygoVerif.Proofs.TailSite
set_option linter.unusedSimpArgs false
set_option linter.unusedVariables false
namespace ZygoVerif.RunInv
open ZygoVerif.Core ZygoVerif.VM ZygoVerif.Bal ZygoVerif.Refine

/-- one successful step of the loop `runLoop` -/
def VmStep (s s' : St) : Prop :=
  ∃ fuel i, ¬ (s.pc = -1 ∨ s.pc ≥ curSize s) ∧ (fnOf s s.curfunc).code[s.pc.toNat]? = some i ∧
    (exec (fuel + 1) i).run s = (.ok (), s')

/-- steps through states whose address stack has at least `a` entries -/
inductive ReachAbove (a : Nat) : St → St → Prop
  | refl {s : St} : a ≤ s.addr.length → ReachAbove a s s
  | step {s s' s'' : St} : a ≤ s.addr.length → VmStep s s' → ReachAbove a s' s'' → ReachAbove a s s''

theorem ReachAbove.trans {a : Nat} {s s' s'' : St} (h1 : ReachAbove a s s') (h2 : ReachAbove a s' s'') : ReachAbove a s s'' := by
  induction h1 with
  | refl _ => exact h2
  | step hs hv _ ih => exact ReachAbove.step hs hv (ih h2)

theorem ReachAbove.last {a : Nat} {s s' : St} (h : ReachAbove a s s') : a ≤ s'.addr.length := by
  induction h with
  | refl h => exact h
  | step _ _ _ ih => exact ih

theorem Running.topA {b : Base} {s : St} {top : Act} {rest : List Act} (h : Running b s top rest) : top.A = s.addr.length := by
  obtain ⟨_, _, _, _, _, _, ha⟩ := h.inv
  exact ha.symm

theorem Chain.A_lt {b : Base} {s : St} : ∀ (acts : List Act) (D : List Cell) (S : Nat) (addr : List (Option (Nat × Int))),
    Chain b s acts D S addr → (∀ x ∈ acts, x.A < addr.length ∧ b.addr.length < x.A) ∧ b.addr.length < addr.length
  | [], _, _, _, h => ⟨fun x hx => (by cases hx), by rw [h.2.2]; simp⟩
  | a :: r, D, S, addr, h => by
    obtain ⟨r', tail, h1, _, _, h4, _, h6⟩ := h
    obtain ⟨ih1, ih2⟩ := Chain.A_lt r _ _ _ h6
    rw [h1]
    simp only [List.length_cons]
    refine ⟨fun x hx => ?_, by omega⟩
    rcases List.mem_cons.mp hx with rfl | hx
    · omega
    · have := ih1 x hx; omega

/-- the activation `a0` (on the activations `rest0`) is on the stack of activations of `s` -/
def Holds (b : Base) (a0 : Act) (rest0 : List Act) (s : St) : Prop :=
  WF s ∧ ∃ upper top rest, Running b s top rest ∧ top :: rest = upper ++ a0 :: rest0

theorem holds_step {b : Base} {a0 : Act} {rest0 : List Act} {s s' : St} (h : Holds b a0 rest0 s) (hv : VmStep s s')
    (ha : a0.A ≤ s'.addr.length) : Holds b a0 rest0 s' := by
  obtain ⟨hw, upper, top, rest, hr, hst⟩ := h
  obtain ⟨fuel, i, _, hf, hex⟩ := hv
  obtain ⟨hw', _, hn, _⟩ := (allSpec' (fuel + 1)).exec b s s' top rest i hw hr hf hex
  have hlt := Chain.A_lt _ _ _ _ hr.chain
  have hmem : a0 = top ∨ a0 ∈ rest := by
    have : a0 ∈ top :: rest := by rw [hst]; simp
    simpa using this
  rcases hn with h1 | ⟨c, h1⟩ | ⟨a, r, hrest, h1⟩ | hfin
  · exact ⟨hw', upper, top, rest, h1, hst⟩
  · exact ⟨hw', c :: upper, c, top :: rest, h1, by rw [hst]; rfl⟩
  · cases upper with
    | nil =>
      exfalso
      simp only [List.nil_append, List.cons.injEq] at hst
      obtain ⟨rfl, hr0⟩ := hst
      have h1a := h1.topA
      have := hlt.1 a (by rw [hrest]; simp)
      have htop := hr.topA
      -- the caller's depth is one less than the callee's
      obtain ⟨r', tail, e1, _, _, e4, _, _⟩ := (by rw [hrest] at hr; exact hr.chain : Chain b s (a :: r) top.D top.S s.addr)
      have : s.addr.length = a.A + 1 := by rw [e1, e4]; simp
      omega
    | cons u us =>
      simp only [List.cons_append, List.cons.injEq] at hst
      exact ⟨hw', us, a, r, h1, by rw [← hrest]; exact hst.2⟩
  · exfalso
    have hA : b.addr.length < a0.A ∨ True := Or.inr trivial
    have hfa := hfin.addr
    rw [hfa] at ha
    rcases hmem with rfl | hm
    · have := hr.topA
      have := hlt.2
      omega
    · have h2 := hlt.1 a0 hm
      omega

theorem holds_reach {b : Base} {a0 : Act} {rest0 : List Act} {s s' : St} (hr : ReachAbove a0.A s s') (h : Holds b a0 rest0 s) :
    Holds b a0 rest0 s' := by
  induction hr with
  | refl _ => exact h
  | step _ hv hrest ih =>
    exact ih (holds_step h hv (by
      cases hrest with
      | refl h' => exact h'
      | step h' _ _ => exact h'))

/-- back at the address depth of the activation, the run is IN the activation -/
theorem holds_top {b : Base} {a0 : Act} {rest0 : List Act} {s : St} (h : Holds b a0 rest0 s) (ha : s.addr.length = a0.A) :
    WF s ∧ Running b s a0 rest0 := by
  obtain ⟨hw, upper, top, rest, hr, hst⟩ := h
  cases upper with
  | nil =>
    simp only [List.nil_append, List.cons.injEq] at hst
    obtain ⟨rfl, rfl⟩ := hst
    exact ⟨hw, hr⟩
  | cons u us =>
    exfalso
    simp only [List.cons_append, List.cons.injEq] at hst
    have hm : a0 ∈ rest := by rw [hst.2]; simp
    have := (Chain.A_lt _ _ _ _ hr.chain).1 a0 hm
    have := hr.topA
    omega

/-- at instruction 0 of an activation: exactly the formals' worth of operands on the data the
activation was entered with, the scope depth it was entered with -/
theorem Running.at_pc0 {b : Base} {s : St} {top : Act} {rest : List Act} (h : Running b s top rest) (hpc : s.pc = 0) :
    s.data.map cellOf = List.replicate (fnB s top.f).entryCount .val ++ top.D ∧ s.linear.length = top.S := by
  obtain ⟨a, own, hann, hd, hconc, hsc, _⟩ := h.inv
  obtain ⟨t, ht, hle⟩ := h.ok.entry
  have h0 : (absC s).pc = 0 := by show s.pc.toNat = 0; rw [hpc]; rfl
  rw [h0, ht] at hann
  cases hann
  obtain ⟨hk, hb, hf⟩ := le_elim _ _ hle
  have hfr : a.frames = [] := by
    have := framesLe_length _ _ hf
    simp only [Fn.entry, List.length_nil] at this
    exact List.length_eq_zero_iff.mp this.symm
  rw [hfr] at hconc
  cases hconc
  refine ⟨?_, ?_⟩
  · rw [show s.data.map cellOf = (absC s).data from rfl, hd, ← hb]; rfl
  · rw [show s.linear.length = (absC s).sc from rfl, hsc, ← hk]; rfl

/-- **Every re-entry of an activation at instruction 0 has the depths of its first entry.**
`E` is the entry of the top activation of a `Running` loop; the run goes on — through nested
calls, callees, tail jumps, any number of iterations — without the address stack ever getting
shorter than at `E` (the activation has not returned); whenever it is back at that address depth
and at instruction 0, it is in the same function with data and scope stacks of the depths of `E`. -/
theorem reentry_depths (b : Base) (E E' : St) (top : Act) (rest : List Act) (hw : WF E) (hr : Running b E top rest)
    (hpc : E.pc = 0) (hreach : ReachAbove E.addr.length E E') (ha : E'.addr.length = E.addr.length) (hpc' : E'.pc = 0) :
    WF E' ∧ Running b E' top rest ∧ E'.curfunc = E.curfunc ∧ E'.data.length = E.data.length ∧
      E'.linear.length = E.linear.length := by
  have hA := hr.topA
  have hh : Holds b top rest E := ⟨hw, [], top, rest, hr, rfl⟩
  obtain ⟨hw', hr'⟩ := holds_top (holds_reach (by rw [hA]; exact hreach) hh) (by rw [ha, hA])
  obtain ⟨d1, l1⟩ := hr.at_pc0 hpc
  obtain ⟨d2, l2⟩ := hr'.at_pc0 hpc'
  have hfb : (fnB E' top.f).entryCount = (fnB E top.f).entryCount := by
    -- the function object of the activation is the same (tables only grow)
    have h1 := hr.ok.len
    have h2 := hr'.ok.len
    have e1 : (fnB E top.f).entryCount = (fnOf E top.f).params.length := rfl
    have e2 : (fnB E' top.f).entryCount = (fnOf E' top.f).params.length := rfl
    -- both describe `replicate entryCount val ++ top.D` against the same entry annotation
    obtain ⟨t1, ht1, hle1⟩ := hr.ok.entry
    obtain ⟨t2, ht2, hle2⟩ := hr'.ok.entry
    rw [ht1] at ht2
    cases ht2
    have b1 := (le_elim _ _ hle1).2.1
    have b2 := (le_elim _ _ hle2).2.1
    simp only [Fn.entry] at b1 b2
    omega
  refine ⟨hw', hr', hr'.cur.trans hr.cur.symm, ?_, by rw [l2, l1]⟩
  have := congrArg List.length d1
  have := congrArg List.length d2
  simp only [List.length_map, List.length_append, List.length_replicate] at *
  omega

end ZygoVerif.RunInv
