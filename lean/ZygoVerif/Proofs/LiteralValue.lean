/-
Numeric literals denote their exact value: the conversion the parser applies to an integer
token (`strconv.ParseInt`/`ParseUint` as modelled in Model/NumLit: Horner evaluation with a
range check) gives the positional value Σ dᵢ·bⁿ⁻¹⁻ⁱ of Spec/DataValue, in every base.
-/
import ZygoVerif.Model.Parser
import ZygoVerif.Spec.DataValue
import Mathlib.Tactic.Ring
namespace ZygoVerif.Literal
open ZygoVerif ZygoVerif.Lexer ZygoVerif.NumLit ZygoVerif.Spec.DataValue

theorem digitVal?_eq (base : Nat) (c : Char) :
    digitVal? base c = (digitVal c).bind (fun d => if d < base then some d else none) := by
  unfold digitVal? digitVal
  split <;> [skip; split <;> [skip; split]] <;> simp

theorem foldl_none (base : Nat) (l : List Char) : l.foldl (hornerStep base) none = none := by
  induction l with
  | nil => rfl
  | cons x l ih => simpa [hornerStep] using ih

/-- Horner evaluation from an accumulator = accumulator shifted + positional value -/
theorem foldl_horner (base : Nat) (ds : List Char) (a : Nat) :
    ds.foldl (hornerStep base) (some a) =
    (ds.mapM (digitVal? base)).map (fun l => a * base ^ l.length + posValue base l) := by
  induction ds generalizing a with
  | nil => simp [posValue]
  | cons c r ih =>
    simp only [List.foldl_cons, List.mapM_cons, digitVal?_eq]
    cases hd : digitVal c with
    | none => simp [hornerStep, hd, foldl_none]
    | some d =>
      by_cases hlt : d < base
      · simp only [hornerStep, hd, hlt, ↓reduceIte, Option.bind_some, ih]
        cases r.mapM (digitVal? base) with
        | none => simp
        | some l =>
          simp only [Option.map_some, Option.bind_eq_bind, Option.bind_some, Option.pure_def, List.length_cons,
            posValue, Option.some.injEq]
          ring
      · simp [hornerStep, hd, hlt, foldl_none]

/-- **`ParseUint` = positional value**: the digits of a numeral in `base` evaluate to Σ dᵢ·baseⁿ⁻¹⁻ⁱ -/
theorem natOfDigits_eq_posValue (base : Nat) (ds : List Char) :
    natOfDigits base ds = (digitsOf base ds).map (posValue base) := by
  unfold natOfDigits digitsOf
  split
  · rfl
  · rw [foldl_horner]
    cases ds.mapM (digitVal? base) <;> simp

end ZygoVerif.Literal

namespace ZygoVerif.Literal
open ZygoVerif ZygoVerif.Lexer ZygoVerif.NumLit ZygoVerif.Spec.DataValue ZygoVerif.Parser

theorem parseInt64_unsigned (base : Nat) (c : Char) (r : List Char) (h1 : c ≠ '-') (h2 : c ≠ '+') :
    parseInt64 base (c :: r) = (match natOfDigits base (c :: r) with
      | some n => if n < 2 ^ 63 then some (n : Int) else none
      | none => none) := by
  unfold parseInt64
  split
  · rename_i heq; simp only [List.cons.injEq] at heq; exact absurd heq.1 h1
  · rename_i heq; simp only [List.cons.injEq] at heq; exact absurd heq.1 h2
  · rfl

/-- the value an unsigned numeral in `base` converts to: its positional value Σ dᵢ·baseⁿ⁻¹⁻ⁱ when
that fits `int64`, an error otherwise -/
def numeralValue (base : Nat) (ds : List Char) : Option Sexp :=
  match (digitsOf base ds).map (posValue base) with
  | some n => if n < 2 ^ 63 then some (.int (n : Int)) else none
  | none => none

theorem parseInt64_numeral (base : Nat) (c : Char) (r : List Char) (h1 : c ≠ '-') (h2 : c ≠ '+') :
    (parseInt64 base (c :: r)).map Sexp.int = numeralValue base (c :: r) := by
  rw [parseInt64_unsigned base c r h1 h2, natOfDigits_eq_posValue]
  unfold numeralValue
  cases (digitsOf base (c :: r)).map (posValue base) with
  | none => rfl
  | some n => by_cases h : n < 2 ^ 63 <;> simp only [h, ↓reduceIte, Option.map_some, Option.map_none]

theorem hexC_not_sign (c : Char) (h : isHexC c = true) : c ≠ '-' ∧ c ≠ '+' := by
  constructor <;> (intro hc; subst hc; revert h; decide)

/-- **hex literals**: the token `DecodeAtom` makes of `0x<digits>` converts to Σ dᵢ·16ⁿ⁻¹⁻ⁱ (error
beyond int64) -/
theorem literal_hex (c : Char) (r : List Char) (h : isHexC c = true) :
    atomOfTok ⟨.hex, c :: r⟩ = some (numeralValue 16 (c :: r)) := by
  obtain ⟨h1, h2⟩ := hexC_not_sign c h
  simp only [atomOfTok, parseInt64_numeral 16 c r h1 h2]

/-- **octal literals** `0o<digits>` -/
theorem literal_oct (c : Char) (r : List Char) (h : isHexC c = true) :
    atomOfTok ⟨.oct, c :: r⟩ = some (numeralValue 8 (c :: r)) := by
  obtain ⟨h1, h2⟩ := hexC_not_sign c h
  simp only [atomOfTok, parseInt64_numeral 8 c r h1 h2]

/-- **binary literals** `0b<digits>` -/
theorem literal_binary (c : Char) (r : List Char) (h : isHexC c = true) :
    atomOfTok ⟨.binary, c :: r⟩ = some (numeralValue 2 (c :: r)) := by
  obtain ⟨h1, h2⟩ := hexC_not_sign c h
  simp only [atomOfTok, parseInt64_numeral 2 c r h1 h2]

/-- **decimal literals without a sign**, underscores removed as the parser does -/
theorem literal_decimal (c : Char) (r : List Char) (h : isDig c = true) :
    atomOfTok ⟨.decimal, c :: r⟩ = some (numeralValue 10 (dropUnderscores (c :: r))) := by
  have hc : (c != '_') = true := by
    rw [bne_iff_ne]; intro hc; subst hc; revert h; decide
  have hf : (c :: r).filter (· != '_') = c :: r.filter (· != '_') := by simp [List.filter_cons, hc]
  have h1 : c ≠ '-' := by intro hc; subst hc; revert h; decide
  have h2 : c ≠ '+' := by intro hc; subst hc; revert h; decide
  simp only [atomOfTok, hf, parseInt64_numeral 10 c _ h1 h2, dropUnderscores]

end ZygoVerif.Literal
