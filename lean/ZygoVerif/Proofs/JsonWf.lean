/-
Structural part of `json_wellformed` (C11): the RFC 8259 parser reads the text written by
the model of SexpToJson back as the denotation of the value, at any depth. Number leaves
enter through `NumLeaves` (discharged in Proofs/JsonNum.lean).
-/
import ZygoVerif.Proofs.JsonString
import ZygoVerif.Spec.JsonData
namespace ZygoVerif.Proofs.JsonWf
open ZygoVerif.Rfc8259 ZygoVerif.Json ZygoVerif.Print ZygoVerif.JsonData
open ZygoVerif.Proofs.JsonString

/-- what may follow a value inside the encoder's output: nothing, `,`, `]` or `}` -/
def Follow (rest : Bytes) : Prop :=
  rest = [] ∨ ∃ c r, rest = c :: r ∧ (c = 0x2C ∨ c = 0x5D ∨ c = 0x7D)

/-- the number leaves: text of an integer / of a finite float parses to its denotation -/
structure NumLeaves : Prop where
  int_head : ∀ n : Int, ∃ c r, itoa n = c :: r ∧ (c = 0x2D ∨ isDigit c = true)
  int_parse : ∀ (n : Int) (rest : Bytes), Follow rest →
    parseNumber (itoa n ++ rest) = some (JNumber.make (decide (n < 0)) n.natAbs 0 true, rest)
  flt_head : ∀ t, floatTextOk t = true → ∃ c r, floatJson t = c :: r ∧ (c = 0x2D ∨ isDigit c = true)
  flt_parse : ∀ (t : FloatText) (rest : Bytes), floatTextOk t = true → Follow rest →
    parseNumber (floatJson t ++ rest) = some (floatNumber t, rest)

theorem parseValue_number (c : Nat) (r rest : Bytes) (hc : c = 0x2D ∨ isDigit c = true) (f : Nat)
    (n : JNumber) (h : parseNumber (c :: r ++ rest) = some (n, rest)) :
    parseValue (f + 1) (c :: r ++ rest) = some (.num n, rest) := by
  have hws : isWs c = false := by
    rcases hc with rfl | hc
    · decide
    · simp only [isDigit, Bool.and_eq_true, decide_eq_true_eq] at hc
      simp only [isWs, Bool.or_eq_false_iff, decide_eq_false_iff_not]; omega
  have h1 : c ≠ 0x22 ∧ c ≠ 0x5B ∧ c ≠ 0x7B ∧ c ≠ 0x74 ∧ c ≠ 0x66 ∧ c ≠ 0x6E := by
    rcases hc with rfl | hc
    · decide
    · simp only [isDigit, Bool.and_eq_true, decide_eq_true_eq] at hc; omega
  obtain ⟨a1, a2, a3, a4, a5, a6⟩ := h1
  simp only [List.cons_append] at h ⊢
  simp only [parseValue, skipWs, hws, Bool.false_eq_true, if_false]
  rw [if_neg a1, if_neg a2, if_neg a3, if_neg a4, if_neg a5, if_neg a6, if_pos hc, h]

theorem parseValue_string (s rest : Bytes) (hv : validUtf8 s = true) (f : Nat) :
    parseValue (f + 1) (jsonQuote s ++ rest) = some (.str s, rest) := by
  have h := parseString_quote s rest hv
  simp only [jsonQuote, List.cons_append, List.append_assoc, List.nil_append, List.singleton_append]
  simp only [parseValue, skipWs]
  have : isWs 0x22 = false := by decide
  simp only [this, Bool.false_eq_true, if_false, if_true, h]


mutual
/-- parser fuel that suffices for a value -/
def need : V → Nat
  | .arr l => needList l + 1
  | .hash _ es => needEntries es + lenEntries es + 5
  | .nil => 0 | .bool _ => 0 | .int _ => 0 | .uint _ => 0 | .flt _ => 0 | .char _ => 0
  | .str _ _ => 0 | .sym _ => 0 | .list _ => 0
def needList : List V → Nat
  | [] => 0
  | a :: r => need a + 1 + needList r
def needEntries : List (V × V) → Nat
  | [] => 0
  | (_, v) :: r => need v + 1 + needEntries r
def lenEntries : List (V × V) → Nat
  | [] => 0
  | _ :: r => 1 + lenEntries r
end

theorem parseValue_ws (f : Nat) (X : Bytes) : parseValue (f + 1) (0x20 :: X) = parseValue (f + 1) X := by
  have : isWs 0x20 = true := by decide
  simp only [parseValue, skipWs, this, if_true]

theorem follow_comma (X : Bytes) : Follow (0x2C :: X) := Or.inr ⟨_, _, rfl, Or.inl rfl⟩
theorem follow_brack (X : Bytes) : Follow (0x5D :: X) := Or.inr ⟨_, _, rfl, Or.inr (Or.inl rfl)⟩
theorem follow_brace (X : Bytes) : Follow (0x7D :: X) := Or.inr ⟨_, _, rfl, Or.inr (Or.inr rfl)⟩

/-- first byte of the encoding of a domain value: never white space, `]` or `}` -/
def GoodHead (c : Nat) : Prop := isWs c = false ∧ c ≠ 0x5D ∧ c ≠ 0x7D

theorem goodHead_of_num (c : Nat) (hc : c = 0x2D ∨ isDigit c = true) : GoodHead c := by
  rcases hc with rfl | hc
  · exact ⟨by decide, by decide, by decide⟩
  · simp only [isDigit, Bool.and_eq_true, decide_eq_true_eq] at hc
    refine ⟨?_, by omega, by omega⟩
    simp only [isWs, Bool.or_eq_false_iff, decide_eq_false_iff_not]; omega

/-- the text after `{` of an encoded hash -/
def hashRest (tn : Bytes) (es : List (V × V)) : Bytes :=
  asciiBytes "\"Atype\":" ++ jsonQuote tn ++
    (if es.isEmpty then [0x7D]
     else jsonMembers es ++ asciiBytes ", \"zKeyOrder\":[" ++ jsonKeyList es ++ [0x5D, 0x7D])

theorem hashJson_eq (tn : Bytes) (es : List (V × V)) :
    sexpToJson (.hash tn es) = 0x7B :: hashRest tn es := by
  simp only [sexpToJson, hashRest]
  have : asciiBytes "{\"Atype\":" = 0x7B :: asciiBytes "\"Atype\":" := by rfl
  rw [this]; rfl

theorem head_good (nl : NumLeaves) (v : V) (hd : inDom v = true) :
    ∃ c r, sexpToJson v = c :: r ∧ GoodHead c := by
  cases v with
  | nil => exact ⟨0x6E, [0x75, 0x6C, 0x6C], by simp [sexpToJson]; rfl, by decide, by decide, by decide⟩
  | bool b =>
    cases b
    · exact ⟨0x66, [0x61, 0x6C, 0x73, 0x65], by simp [sexpToJson, sexpString]; rfl, by decide, by decide, by decide⟩
    · exact ⟨0x74, [0x72, 0x75, 0x65], by simp [sexpToJson, sexpString]; rfl, by decide, by decide, by decide⟩
  | int n =>
    obtain ⟨c, r, h, hc⟩ := nl.int_head n
    exact ⟨c, r, by simpa [sexpToJson, sexpString] using h, goodHead_of_num c hc⟩
  | flt f =>
    simp only [inDom] at hd
    obtain ⟨c, r, h, hc⟩ := nl.flt_head f.jtext hd
    exact ⟨c, r, by simpa [sexpToJson] using h, goodHead_of_num c hc⟩
  | str s b => exact ⟨0x22, jsonQuoteBody s ++ [0x22], by simp [sexpToJson, jsonQuote], by decide, by decide, by decide⟩
  | sym n => exact ⟨0x22, jsonQuoteBody n ++ [0x22], by simp [sexpToJson, jsonQuote], by decide, by decide, by decide⟩
  | arr l => exact ⟨0x5B, jsonElems l ++ [0x5D], by simp [sexpToJson], by decide, by decide, by decide⟩
  | hash tn es => exact ⟨0x7B, _, hashJson_eq tn es, by decide, by decide, by decide⟩
  | uint n => simp [inDom] at hd
  | char c => simp [inDom] at hd
  | list l => simp [inDom] at hd


theorem parse_null (f : Nat) (rest : Bytes) :
    parseValue (f + 1) (asciiBytes "null" ++ rest) = some (.null, rest) := by
  have : asciiBytes "null" = [0x6E, 0x75, 0x6C, 0x6C] := by rfl
  rw [this]
  simp [parseValue, skipWs, isWs, stripPrefix, List.isPrefixOf]

theorem parse_true (f : Nat) (rest : Bytes) :
    parseValue (f + 1) (asciiBytes "true" ++ rest) = some (.bool true, rest) := by
  have : asciiBytes "true" = [0x74, 0x72, 0x75, 0x65] := by rfl
  rw [this]
  simp [parseValue, skipWs, isWs, stripPrefix, List.isPrefixOf]

theorem parse_false (f : Nat) (rest : Bytes) :
    parseValue (f + 1) (asciiBytes "false" ++ rest) = some (.bool false, rest) := by
  have : asciiBytes "false" = [0x66, 0x61, 0x6C, 0x73, 0x65] := by rfl
  rw [this]
  simp [parseValue, skipWs, isWs, stripPrefix, List.isPrefixOf]

theorem skipWs_good (c : Nat) (X : Bytes) (h : isWs c = false) : skipWs (c :: X) = c :: X := by
  simp [skipWs, h]

theorem parseElems_succ (F : Nat) (inp : Bytes) (acc : List JValue) :
    parseElems (F + 1) inp acc =
      (match parseValue F inp with
       | none => none
       | some (v, r) =>
         match skipWs r with
         | 0x2C :: r' => parseElems F r' (acc ++ [v])
         | 0x5D :: r' => some (.arr (acc ++ [v]), r')
         | _ => none) := by
  rw [parseElems]; rfl

def keyOk : V → Bool
  | .str s _ => validUtf8 s
  | .sym n => validUtf8 n
  | _ => false

theorem keyOk_text (k : V) (h : keyOk k = true) : keyNameD k = keyText k ∧ validUtf8 (keyText k) = true := by
  cases k <;> simp_all [keyOk, keyNameD, keyName?, keyText]

theorem inDomEntries_cons (k v : V) (r : List (V × V)) (h : inDomEntries ((k, v) :: r) = true) :
    keyOk k = true ∧ inDom v = true ∧ inDomEntries r = true := by
  simp only [inDomEntries, Bool.and_eq_true] at h
  refine ⟨?_, h.1.2, h.2⟩
  cases k <;> simp_all [keyOk]

theorem keysOk_of_dom : ∀ (es : List (V × V)), inDomEntries es = true → ∀ kv ∈ es, keyOk kv.1 = true
  | [], _, _, h => by cases h
  | (k, v) :: r, hd, kv, hmem => by
    obtain ⟨h1, _, h3⟩ := inDomEntries_cons k v r hd
    rcases List.mem_cons.mp hmem with rfl | hm
    · exact h1
    · exact keysOk_of_dom r h3 kv hm

theorem parseMembers_succ (F : Nat) (inp : Bytes) (acc : List (Bytes × JValue)) :
    parseMembers (F + 1) inp acc =
      (match skipWs inp with
       | 0x22 :: r =>
         match parseString r with
         | none => none
         | some (k, r1) =>
           match skipWs r1 with
           | 0x3A :: r2 =>
             match parseValue F r2 with
             | none => none
             | some (v, r3) =>
               match skipWs r3 with
               | 0x2C :: r' => parseMembers F r' (acc ++ [(k, v)])
               | 0x7D :: r' => some (.obj (acc ++ [(k, v)]), r')
               | _ => none
           | _ => none
       | _ => none) := by
  rw [parseMembers]; rfl

/-- one member `"k":<value text>` in front of `X`, when the value text parses -/
theorem parse_member (F : Nat) (kt : Bytes) (hk : validUtf8 kt = true) (J X : Bytes) (jv : JValue)
    (acc : List (Bytes × JValue)) (hv : parseValue F (J ++ X) = some (jv, X)) :
    parseMembers (F + 1) (0x20 :: jsonQuote kt ++ 0x3A :: J ++ X) acc =
      (match skipWs X with
       | 0x2C :: r' => parseMembers F r' (acc ++ [(kt, jv)])
       | 0x7D :: r' => some (.obj (acc ++ [(kt, jv)]), r')
       | _ => none) := by
  rw [parseMembers_succ]
  have h1 : skipWs (0x20 :: jsonQuote kt ++ 0x3A :: J ++ X) = 0x22 :: (jsonQuoteBody kt ++ 0x22 :: (0x3A :: J ++ X)) := by
    simp [skipWs, isWs, jsonQuote]
  rw [h1]
  simp only [parseString_quote kt _ hk]
  have h2 : skipWs (0x3A :: J ++ X) = 0x3A :: (J ++ X) := by simp [skipWs, isWs]
  simp only [h2, hv]

theorem parse_member0 (F : Nat) (kt : Bytes) (hk : validUtf8 kt = true) (J X : Bytes) (jv : JValue)
    (acc : List (Bytes × JValue)) (hv : parseValue F (J ++ X) = some (jv, X)) :
    parseMembers (F + 1) (jsonQuote kt ++ 0x3A :: J ++ X) acc =
      (match skipWs X with
       | 0x2C :: r' => parseMembers F r' (acc ++ [(kt, jv)])
       | 0x7D :: r' => some (.obj (acc ++ [(kt, jv)]), r')
       | _ => none) := by
  rw [parseMembers_succ]
  have h1 : skipWs (jsonQuote kt ++ 0x3A :: J ++ X) = 0x22 :: (jsonQuoteBody kt ++ 0x22 :: (0x3A :: J ++ X)) := by
    simp [skipWs, isWs, jsonQuote]
  rw [h1]
  simp only [parseString_quote kt _ hk]
  have h2 : skipWs (0x3A :: J ++ X) = 0x3A :: (J ++ X) := by simp [skipWs, isWs]
  simp only [h2, hv]

/-- the array of key names that closes an encoded hash -/
theorem wf_keys : ∀ (es : List (V × V)), es ≠ [] → (∀ kv ∈ es, keyOk kv.1 = true) → ∀ (F : Nat), lenEntries es ≤ F →
    ∀ (acc : List JValue) (rest : Bytes),
    parseElems (F + 1) (jsonKeyList es ++ 0x5D :: rest) acc = some (.arr (acc ++ denoteKeys es), rest)
  | [], hne, _, _, _, _, _ => absurd rfl hne
  | (k, v) :: r, _, hk, F, hF, acc, rest => by
    obtain ⟨hkt, hkv⟩ := keyOk_text k (hk (k, v) (by simp))
    simp only [lenEntries] at hF
    obtain ⟨f, rfl⟩ : ∃ f, F = f + 1 := ⟨F - 1, by omega⟩
    rw [parseElems_succ]
    simp only [jsonKeyList, List.append_assoc]
    rw [parseValue_string _ _ hkv f]
    cases r with
    | nil => simp [jsonKeyListTail, skipWs, isWs, denoteKeys, hkt]
    | cons e r' =>
      obtain ⟨k2, v2⟩ := e
      have ih := wf_keys ((k2, v2) :: r') (by simp) (fun kv h => hk kv (by simp [h])) f (by simp only [lenEntries] at hF ⊢; omega)
        (acc ++ [.str (keyText k)]) rest
      simp only [jsonKeyListTail, List.cons_append, List.nil_append, List.append_assoc]
      have hws : isWs 0x2C = false := by decide
      simp only [skipWs_good _ _ hws]
      rw [parseElems_succ] at ih ⊢
      obtain ⟨f2, rfl⟩ : ∃ f2, f = f2 + 1 := ⟨f - 1, by simp only [lenEntries] at hF; omega⟩
      rw [parseValue_ws]
      simp only [jsonKeyList, List.append_assoc] at ih
      simp only [denoteKeys, hkt, List.append_assoc, List.singleton_append] at ih ⊢
      exact ih

theorem parseMembers_ws (F : Nat) (Y : Bytes) (acc : List (Bytes × JValue)) :
    parseMembers (F + 1) (0x20 :: Y) acc = parseMembers (F + 1) Y acc := by
  rw [parseMembers_succ, parseMembers_succ]
  have : skipWs (0x20 :: Y) = skipWs Y := by simp [skipWs, isWs]
  rw [this]

def afterLead : List (V × V) → Bytes → Bytes
  | [], Z => Z
  | (k, v) :: r, Z => jsonQuote (keyText k) ++ 0x3A :: sexpToJson v ++ 0x2C :: 0x20 :: afterLead r Z

theorem members_afterLead (es : List (V × V)) (Z : Bytes) :
    jsonMembers es ++ 0x2C :: 0x20 :: Z = 0x2C :: 0x20 :: afterLead es Z := by
  induction es with
  | nil => simp [jsonMembers, afterLead]
  | cons e r ih =>
    obtain ⟨k, v⟩ := e
    simp only [jsonMembers, afterLead, List.append_assoc, List.cons_append, List.nil_append, ih]

/-- the array of key names as a value -/
theorem wf_keys_value (es : List (V × V)) (hne : es ≠ []) (hk : ∀ kv ∈ es, keyOk kv.1 = true)
    (F : Nat) (hF : lenEntries es + 1 ≤ F) (rest : Bytes) :
    parseValue (F + 1) (0x5B :: jsonKeyList es ++ 0x5D :: rest) = some (.arr (denoteKeys es), rest) := by
  obtain ⟨g, rfl⟩ : ∃ g, F = g + 1 := ⟨F - 1, by omega⟩
  have hws : isWs 0x5B = false := by decide
  simp only [List.cons_append, parseValue, skipWs_good _ _ hws]
  have hk0 := wf_keys es hne hk g (by omega) [] rest
  simp only [List.nil_append] at hk0
  simp only [if_neg (show ¬ (0x5B:Nat) = 0x22 by decide), if_true]
  cases es with
  | nil => exact absurd rfl hne
  | cons e r =>
    obtain ⟨k, v⟩ := e
    have hq : skipWs (jsonKeyList ((k, v) :: r) ++ 0x5D :: rest) = 0x22 :: (jsonQuoteBody (keyText k) ++ 0x22 :: (jsonKeyListTail r ++ 0x5D :: rest)) := by
      simp [jsonKeyList, jsonQuote, skipWs, isWs]
    rw [hq]
    exact hk0

mutual
theorem wf_value (nl : NumLeaves) : ∀ (v : V), inDom v = true → ∀ (f : Nat), need v ≤ f →
    ∀ (rest : Bytes), Follow rest → parseValue (f + 1) (sexpToJson v ++ rest) = some (denote v, rest)
  | .nil, _, f, _, rest, _ => by simpa [sexpToJson, denote] using parse_null f rest
  | .bool true, _, f, _, rest, _ => by simpa [sexpToJson, sexpString, denote] using parse_true f rest
  | .bool false, _, f, _, rest, _ => by simpa [sexpToJson, sexpString, denote] using parse_false f rest
  | .int n, _, f, _, rest, hr => by
    obtain ⟨c, r, h, hc⟩ := nl.int_head n
    have hp := nl.int_parse n rest hr
    simp only [sexpToJson, sexpString, denote]
    rw [h] at hp ⊢
    exact parseValue_number c r rest hc f _ hp
  | .flt fl, hd, f, _, rest, hr => by
    simp only [inDom] at hd
    obtain ⟨c, r, h, hc⟩ := nl.flt_head fl.jtext hd
    have hp := nl.flt_parse fl.jtext rest hd hr
    simp only [sexpToJson, denote]
    rw [h] at hp ⊢
    exact parseValue_number c r rest hc f _ hp
  | .str s b, hd, f, _, rest, _ => by
    simp only [inDom] at hd
    simpa [sexpToJson, denote] using parseValue_string s rest hd f
  | .sym s, hd, f, _, rest, _ => by
    simp only [inDom] at hd
    simpa [sexpToJson, denote] using parseValue_string s rest hd f
  | .uint _, hd, _, _, _, _ => by simp [inDom] at hd
  | .char _, hd, _, _, _, _ => by simp [inDom] at hd
  | .list _, hd, _, _, _, _ => by simp [inDom] at hd
  | .arr l, hd, f, hf, rest, _ => by
    simp only [inDom] at hd
    simp only [need] at hf
    simp only [sexpToJson, denote, List.cons_append, List.append_assoc, List.singleton_append]
    have hws : isWs 0x5B = false := by decide
    simp only [parseValue, skipWs_good _ _ hws]
    cases l with
    | nil => simp [jsonElems, skipWs, isWs, denoteList]
    | cons a r =>
      obtain ⟨c, t, hc, hg⟩ := head_good nl a (by simp only [inDomList, Bool.and_eq_true] at hd; exact hd.1)
      have hne : ∀ r', skipWs (jsonElems (a :: r) ++ 0x5D :: rest) ≠ 0x5D :: r' := by
        intro r'
        simp only [jsonElems, hc, List.cons_append, skipWs_good _ _ hg.1]
        intro h; injection h with h1 _; exact hg.2.1 h1
      obtain ⟨f', rfl⟩ : ∃ f', f = f' + 1 := ⟨f - 1, by simp only [needList] at hf; omega⟩
      have := wf_list nl (a :: r) hd (by simp) f' (by omega) [] rest
      simp only [List.nil_append] at this
      simp only [if_neg (show ¬ (0x5B:Nat) = 0x22 by decide), if_true]
      split
      · rename_i r' heq; exact absurd heq (hne r')
      · exact this
  | .hash tn es, hd, f, hf, rest, _ => by
    simp only [inDom, Bool.and_eq_true] at hd
    simp only [need] at hf
    rw [hashJson_eq]
    have hws : isWs 0x7B = false := by decide
    simp only [List.cons_append, parseValue, skipWs_good _ _ hws]
    simp only [if_neg (show ¬ (0x7B:Nat) = 0x22 by decide), if_neg (show ¬ (0x7B:Nat) = 0x5B by decide), if_true]
    have hA : asciiBytes "\"Atype\":" = jsonQuote JsonData.atype ++ [0x3A] := by rfl
    obtain ⟨f1, rfl⟩ : ∃ f1, f = f1 + 1 := ⟨f - 1, by omega⟩
    obtain ⟨f2, rfl⟩ : ∃ f2, f1 = f2 + 1 := ⟨f1 - 1, by omega⟩
    have hvA : validUtf8 JsonData.atype = true := by decide +kernel
    -- the text after `{`
    have hX : ∀ Y, hashRest tn es ++ rest = Y → skipWs Y = Y ∧ ∀ r', Y ≠ 0x7D :: r' := by
      intro Y hY; subst hY
      simp only [hashRest, hA, jsonQuote, List.cons_append, List.append_assoc]
      exact ⟨by simp [skipWs, isWs], by intro r' h; injection h with h1 _; exact absurd h1 (by decide)⟩
    obtain ⟨hs1, hs2⟩ := hX _ rfl
    rw [hs1]
    split
    · rename_i r' heq; exact absurd heq (hs2 r')
    · by_cases he : es = []
      · subst he
        have hm := parse_member0 (f2 + 1) JsonData.atype hvA (jsonQuote tn) (0x7D :: rest) (.str tn) []
          (parseValue_string tn _ hd.1 f2)
        simp only [hashRest, hA, List.isEmpty_nil, if_true, List.append_assoc, List.cons_append, List.nil_append] at hm ⊢
        rw [hm]
        simp [skipWs, isWs, denote, denoteEntries, JsonData.atype, Json.atype]
      · have hes : es.isEmpty = false := by cases es <;> simp_all
        let Z : Bytes := jsonQuote JsonData.zKeyOrder ++ 0x3A :: (0x5B :: jsonKeyList es ++ [0x5D]) ++ 0x7D :: rest
        have hZt : asciiBytes ", \"zKeyOrder\":[" = 0x2C :: 0x20 :: (jsonQuote JsonData.zKeyOrder ++ [0x3A, 0x5B]) := by rfl
        have hXe : jsonMembers es ++ (asciiBytes ", \"zKeyOrder\":[" ++ (jsonKeyList es ++ (0x5D :: 0x7D :: rest)))
            = 0x2C :: 0x20 :: afterLead es Z := by
          rw [hZt, ← members_afterLead]
          simp [Z, List.append_assoc]
        have hm := parse_member0 (f2 + 1) JsonData.atype hvA (jsonQuote tn) (0x2C :: 0x20 :: afterLead es Z) (.str tn) []
          (parseValue_string tn _ hd.1 f2)
        simp only [hashRest, hA, hes, Bool.false_eq_true, if_false, List.append_assoc, List.cons_append, List.nil_append] at hm ⊢
        rw [hXe, hm]
        have hws2 : isWs 0x2C = false := by decide
        simp only [skipWs_good _ _ hws2]
        have hvZ : validUtf8 JsonData.zKeyOrder = true := by decide +kernel
        have hkeys : ∀ kv ∈ es, keyOk kv.1 = true := keysOk_of_dom es hd.2
        have hZ : ∀ F', lenEntries es + 2 ≤ F' → ∀ acc', parseMembers (F' + 1) (0x20 :: Z) acc'
            = some (.obj (acc' ++ [(JsonData.zKeyOrder, .arr (denoteKeys es))]), rest) := by
          intro F' hF' acc'
          rw [parseMembers_ws]
          have hv := wf_keys_value es he hkeys (F' - 1) (by omega) (0x7D :: rest)
          obtain ⟨g, rfl⟩ : ∃ g, F' = g + 1 := ⟨F' - 1, by omega⟩
          simp only [Nat.add_sub_cancel] at hv
          have hm2 := parse_member0 (g + 1) JsonData.zKeyOrder hvZ (0x5B :: jsonKeyList es ++ [0x5D]) (0x7D :: rest)
            (.arr (denoteKeys es)) acc' (by simpa [List.append_assoc] using hv)
          simp only [Z, List.append_assoc, List.cons_append, List.nil_append] at hm2 ⊢
          rw [hm2]
          simp [skipWs, isWs]
        have := wf_entries nl es hd.2 f2 (lenEntries es + 2) (by omega) [(JsonData.atype, .str tn)] Z
          (JsonData.zKeyOrder, .arr (denoteKeys es)) rest hZ
        rw [this]
        simp [denote, hes]
theorem wf_list (nl : NumLeaves) : ∀ (l : List V), inDomList l = true → l ≠ [] → ∀ (F : Nat), needList l ≤ F →
    ∀ (acc : List JValue) (rest : Bytes),
    parseElems (F + 1) (jsonElems l ++ 0x5D :: rest) acc = some (.arr (acc ++ denoteList l), rest)
  | [], _, hne, _, _, _, _ => absurd rfl hne
  | a :: r, hd, _, F, hF, acc, rest => by
    simp only [inDomList, Bool.and_eq_true] at hd
    simp only [needList] at hF
    obtain ⟨f, rfl⟩ : ∃ f, F = f + 1 := ⟨F - 1, by omega⟩
    rw [parseElems_succ]
    simp only [jsonElems, List.append_assoc]
    cases r with
    | nil =>
      simp only [jsonElemsTail, List.nil_append]
      rw [wf_value nl a hd.1 f (by omega) _ (follow_brack rest)]
      simp [skipWs, isWs, denoteList]
    | cons b r' =>
      have hfol : Follow (jsonElemsTail (b :: r') ++ 0x5D :: rest) := by
        simp only [jsonElemsTail, List.cons_append, List.nil_append]; exact follow_comma _
      rw [wf_value nl a hd.1 f (by omega) _ hfol]
      have ih := wf_list nl (b :: r') hd.2 (by simp) f (by simp only [needList] at hF ⊢; omega) (acc ++ [denote a]) rest
      simp only [jsonElemsTail, List.cons_append, List.nil_append, List.append_assoc]
      have hws : isWs 0x2C = false := by decide
      simp only [skipWs_good _ _ hws]
      rw [parseElems_succ] at ih ⊢
      obtain ⟨f2, rfl⟩ : ∃ f2, f = f2 + 1 := ⟨f - 1, by simp only [needList] at hF; omega⟩
      rw [parseValue_ws]
      simp only [jsonElems, List.append_assoc] at ih
      simp only [denoteList, List.append_assoc, List.singleton_append] at ih ⊢
      exact ih
theorem wf_entries (nl : NumLeaves) : ∀ (es : List (V × V)), inDomEntries es = true → ∀ (F L : Nat), needEntries es + L ≤ F →
    ∀ (acc : List (Bytes × JValue)) (Z : Bytes) (zm : Bytes × JValue) (rest : Bytes),
    (∀ F', L ≤ F' → ∀ acc', parseMembers (F' + 1) (0x20 :: Z) acc' = some (.obj (acc' ++ [zm]), rest)) →
    parseMembers (F + 1) (0x20 :: afterLead es Z) acc = some (.obj (acc ++ denoteEntries es ++ [zm]), rest)
  | [], _, F, L, hF, acc, Z, zm, rest, hZ => by
    simp only [needEntries] at hF
    simpa [afterLead, denoteEntries] using hZ F (by omega) acc
  | (k, v) :: r, hd, F, L, hF, acc, Z, zm, rest, hZ => by
    obtain ⟨hk, hv, hr⟩ := inDomEntries_cons k v r hd
    obtain ⟨hkt, hkv⟩ := keyOk_text k hk
    simp only [needEntries] at hF
    obtain ⟨f, rfl⟩ : ∃ f, F = f + 1 := ⟨F - 1, by omega⟩
    have hval := wf_value nl v hv f (by omega) (0x2C :: 0x20 :: afterLead r Z) (follow_comma _)
    have hm := parse_member (f + 1) (keyText k) hkv (sexpToJson v) (0x2C :: 0x20 :: afterLead r Z) (denote v) acc hval
    simp only [afterLead, List.append_assoc, List.cons_append, List.nil_append] at hm ⊢
    rw [hm]
    have hws2 : isWs 0x2C = false := by decide
    simp only [skipWs_good _ _ hws2]
    rw [wf_entries nl r hr f L (by omega) _ Z zm rest hZ]
    simp [denoteEntries, hkt]
end

end ZygoVerif.Proofs.JsonWf
