/-
C02, execution half — Stage C, top level: a program text of the fragment Fv (literals,
symbols, `def`, `set`, `begin`, `cond`, `and`, `or`), loaded and run by the VM model and
evaluated by the reference evaluator, from related states.
-/
import ZygoVerif.Proofs.SimFv
import ZygoVerif.Proofs.SimF0cTop
set_option linter.unusedSimpArgs false
namespace ZygoVerif.Sim
open ZygoVerif.Core ZygoVerif.VM

/-- `Run` over a segment at the end of the current function that ends in a script error -/
theorem run_of_fails {s : St} {K : Nat} {tr : List String} (h : Fails K s tr) (fuel : Nat) (hf : K + 2 ≤ fuel) :
    ∃ sf, (run fuel).run s = (.error .err, sf) ∧ sf.trace = tr := by
  obtain ⟨k, hk, H⟩ := h
  obtain ⟨f, rfl⟩ : ∃ f, fuel = (f + 1 + k) + 1 := ⟨fuel - k - 2, by omega⟩
  obtain ⟨sf, hrun, htr⟩ := H (f + 1) (by omega) (capOf s)
  refine ⟨sf, ?_, htr⟩
  rw [run]
  simp only [run_bind, run_capture, hrun]

/-- `Run` over a segment at the end of the current function that lands with a value -/
theorem run_of_lands {s s' : St} {pre code : List Instr} {v : Val} (h : Seg s pre code [])
    (hr : Reach code.length 1 s s') (hl : Lands code.length v s s') (fuel : Nat) (hf : code.length + 3 ≤ fuel) :
    (run fuel).run s = (.ok v, s'.jmp s'.pc s.data) := by
  obtain ⟨f, rfl⟩ : ∃ f, fuel = f + 1 := ⟨fuel - 1, by omega⟩
  have hfin : (runLoop f (capOf s)).run s = (.ok (), s') :=
    hr.finish (Or.inr (by
      rw [h.total' hl.fn, hl.pc, h.pc]
      simp only [List.length_nil]; omega)) f (by omega) _
  rw [run]
  simp only [run_bind, run_capture, hfin, run_get, hl.data, List.isEmpty_cons, Bool.false_eq_true, if_false,
    run_pure, run_popData]
  rfl

theorem rel_initSt : Rel initSt Ref.initSt 0 := by
  refine ⟨⟨rfl, ?_, ?_, ?_, rfl, rfl⟩, rfl, rfl⟩
  · intro i x
    cases i with
    | zero => rfl
    | succ i => rfl
  · intro i
    cases i with
    | zero => rfl
    | succ i => rfl
  · exact Chain.root _ rfl rfl

/-- loading a text keeps the relation (it touches the code of `__main`, `curfunc` and the trace) -/
theorem Rel.loaded {s : St} {rs : Ref.St} (h : Rel s rs 0) (hs : AtRest s) (code : List Instr) :
    Rel (loadState (clearTrace s) (clearTrace s) code) { rs with trace := [] } 0 := by
  have hf : fnOf (loadState (clearTrace s) (clearTrace s) code) (loadState (clearTrace s) (clearTrace s) code).curfunc
      = { fnOf s mainFn with code := (fnOf s mainFn).code ++ (if (clearTrace s).pc ≥ curSize (clearTrace s) then [] else [.pop]) ++ code } := by
    show (List.set s.fns mainFn _).getD mainFn {} = _
    simp only [List.getD_eq_getElem?_getD, List.getElem?_set_self hs.main, Option.getD_some]
    rfl
  have hcur := hs.cur
  exact ⟨⟨h.len, h.vars, h.nofn, h.chain, h.heap, rfl⟩,
    by rw [hf]; have := h.fnpar; rw [hcur] at this; exact this,
    by rw [hf]; have := h.fnclo; rw [hcur] at this; exact this⟩

/-- what `runText` must report for a reference result -/
def TextAgrees (out : VM.Outcome × St × Bool) (res : Ref.R Val) : Prop :=
  match res with
  | .ok v rs' => ∃ sf d, out = (.done "ok" (pr rs'.heap v) rs'.trace d, sf, true) ∧ Rel sf rs' 0
  | .err rs' => ∃ sf d, out = (.done "err" "-" rs'.trace d, sf, true)
  | .timeout => True
  | .brk _ _ => False
  | .cont _ _ => False

/-- **A non-empty Fv program text, loaded and run**, from a resting VM state related to the
reference state: with enough fuel (`code.length + 3`), `runText` reports class `ok` with the
value and trace of the reference evaluator (and the final states are related again), or class
`err` with the reference trace — whichever the reference evaluator yields. -/
theorem runText_Fv (s : St) (rs : Ref.St) (p : List Expr) (hne : p ≠ []) (hp : FvList p = true)
    (hs : AtRest s) (hrel : Rel s rs 0) (n : Nat) :
    ∃ N, ∀ fuel, N ≤ fuel → TextAgrees (runText fuel p s) (Ref.evalBegin n p 0 { rs with trace := [] }) := by
  obtain ⟨code, t, hc, -⟩ := compileBegin_total_Fv p hne hp (isFnScope (clearTrace s)) {}
    { fns := s.fns, loops := s.loops, loopstack := s.loopstack, live := s.linear }
  have hload : (runGen (compileBegin (isFnScope (clearTrace s)) {} p)).run (clearTrace s)
      = (.ok (code, t), clearTrace s) := run_runGen_ok _ (clearTrace s) _ hc
  have hseg := hs.loaded code
  have hrel' := hrel.loaded hs code
  have hsim := segment_Fv_begin p hne hp _ _ _ code t _ hc _ _ 0 _ [] hrel' hseg n
  refine ⟨code.length + 3, fun fuel hf => ?_⟩
  cases hres : Ref.evalBegin n p 0 { rs with trace := [] } with
  | ok v rs' =>
    rw [hres] at hsim
    obtain ⟨s1, r, l, rel1, -⟩ := hsim
    have hrun := run_of_lands hseg r l fuel hf
    refine ⟨s1.jmp s1.pc (loadState (clearTrace s) (clearTrace s) code).data,
      depths (s1.jmp s1.pc (loadState (clearTrace s) (clearTrace s) code).data), ?_, rel1.jmp _ _⟩
    rw [runText_eq]
    simp only [hload, hrun]
    rw [show (s1.jmp s1.pc (loadState (clearTrace s) (clearTrace s) code).data).heap = rs'.heap from rel1.heap,
      show (s1.jmp s1.pc (loadState (clearTrace s) (clearTrace s) code).data).trace = rs'.trace from rel1.trace]
  | err rs' =>
    rw [hres] at hsim
    obtain ⟨sf, hrun, htr⟩ := run_of_fails hsim fuel (by omega)
    refine ⟨sf, depths sf, ?_⟩
    rw [runText_eq]
    simp only [hload, hrun, htr]
  | timeout => trivial
  | brk l rs' => rw [hres] at hsim; exact hsim
  | cont l rs' => rw [hres] at hsim; exact hsim

end ZygoVerif.Sim
