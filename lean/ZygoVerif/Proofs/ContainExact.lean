/-
C05 on the executable VM model, part 2b: contents.

`restore` sets the SIZES whatever happened; the CONTENTS of the restored stacks are those
captured exactly when the state in which the failing instruction stopped still stands on the
stacks of entry (`Extends`): `restore_exact_vm`, `run_error_exact`. Without it the statement
is false — `TruncateToSize` pads with nil cells (`pad_counterexample`), and sizes that fit are
not enough either (`fits_not_enough_counterexample`).
-/
import ZygoVerif.Proofs.ContainFrame
import ZygoVerif.Proofs.ContainTop
set_option linter.unusedSimpArgs false
namespace ZygoVerif.Contain
open ZygoVerif.Core ZygoVerif.VM ZygoVerif.Sim

/-- **frame, one instruction**: a non-re-entrant instruction executed with enough room above
the bases leaves the bases in place — whatever its outcome. -/
theorem exec_simple_frame (f : Nat) (i : Instr) (s : St) (hs : simple i = true) {bd bl ba} (hb : Above bd bl ba s)
    (hd : bd.length + needD i s ≤ s.data.length) (hl : bl.length + needL i ≤ s.linear.length)
    (ha : ba.length + needA i ≤ s.addr.length) : Above bd bl ba ((exec (f + 1) i).run s).2 :=
  (exec_simple_eff f i s hs).frame hb hd hl ha

/-- … and never touches the scope stacks set aside by lazy forces. -/
theorem exec_simple_susp (f : Nat) (i : Instr) (s : St) (hs : simple i = true) :
    ((exec (f + 1) i).run s).2.suspended = s.suspended := (exec_simple_eff f i s hs).susp

/-- … nor the loop-record stack (the generator's). -/
theorem exec_simple_loopstack (f : Nat) (i : Instr) (s : St) (hs : simple i = true) :
    ((exec (f + 1) i).run s).2.loopstack = s.loopstack := (exec_simple_eff f i s hs).loopstack

/-- `s₁` still stands on the stacks `s` had: nothing below the depths of `s` was touched.
The scope stack is compared on the stack OBJECT that was current in `s` (`linAt`). -/
structure Extends (s s₁ : St) : Prop where
  data : s.data <:+ s₁.data
  linear : s.linear <:+ linAt (captureOf s) s₁
  addr : s.addr <:+ s₁.addr
  susp : s.suspended <:+ s₁.suspended

theorem suspAt_of_suffix (s s₁ : St) (h : s.suspended <:+ s₁.suspended) :
    suspAt (captureOf s) s₁ = s.suspended := by
  obtain ⟨t, ht⟩ := h
  unfold suspAt captureOf
  simp only [← ht, List.length_append]
  split
  · rw [show t.length + s.suspended.length - s.suspended.length = t.length by omega]
    simp
  · rename_i hlt
    have : t = [] := List.eq_nil_of_length_eq_zero (by omega)
    simp [this]

/-- **restore_exact_vm** — under `Extends` the restored control state is the captured one,
contents included; everything else is as the failing instruction left it. -/
theorem restore_exact_vm (s s₁ : St) (h : Extends s s₁) :
    restoreSt (captureOf s) s₁ =
      { s₁ with data := s.data, linear := s.linear, addr := s.addr, suspended := s.suspended,
                curfunc := s.curfunc, pc := s.pc } := by
  unfold restoreSt
  rw [suspAt_of_suffix s s₁ h.susp]
  have hd := truncate_of_suffix _ _ h.data
  have hl := truncate_of_suffix _ _ h.linear
  have ha := truncate_of_suffix _ _ h.addr
  show ({ s₁ with addr := truncate s₁.addr s.addr.length, linear := truncate (linAt (captureOf s) s₁) s.linear.length,
                  suspended := s.suspended, data := truncate s₁.data s.data.length, curfunc := s.curfunc, pc := s.pc } : St) = _
  rw [hd, hl, ha]

/-- `s₁` is a state in which an instruction stopped with an error, and `Run` entered in `s`
answers that error. -/
def FaultState (fuel : Nat) (s s₁ : St) : Prop :=
  (∃ s₀ i f, (exec f i).run s₀ = (.error .err, s₁)) ∧
  (run fuel).run s = (.error .err, park (restoreSt (captureOf s) s₁))

/-- every error of `Run` has its fault state (`run_err_shape`) -/
theorem faultState_exists (fuel : Nat) (s s' : St) (h : (run fuel).run s = (.error .err, s')) :
    ∃ s₁, FaultState fuel s s₁ ∧ s' = park (restoreSt (captureOf s) s₁) := by
  obtain ⟨s0, i, f, s1, hx, rfl⟩ := run_err_shape fuel s s' h
  exact ⟨s1, ⟨⟨s0, i, f, hx⟩, h⟩, rfl⟩

/-- **run_error_exact** — the error exit of `Run`, when the failing instruction stopped in a
state that extends the state of entry: the three stacks, the set-aside scope stacks and the
current function are EQUAL to those of entry, the pc is parked; tables (scopes, functions,
heap, thunks …) are as the failing instruction left them — nothing of them is rolled back. -/
theorem run_error_exact (fuel : Nat) (s s₁ : St) (hf : FaultState fuel s s₁) (hext : Extends s s₁) :
    (run fuel).run s = (.error .err,
      park { s₁ with data := s.data, linear := s.linear, addr := s.addr, suspended := s.suspended,
                     curfunc := s.curfunc, pc := s.pc }) := by
  rw [hf.2, restore_exact_vm s s₁ hext]

/-! ### concrete runs: non-vacuity, and where the unconditional statement is false -/

/-- the outcome is a (script-level) error -/
def isErr {α} (r : Except Fault α) : Bool := match r with | .error .err => true | _ => false

/-- an interpreter at rest whose main function holds `code`, about to run it -/
def withMain (code : List Instr) (data : List (Option Val)) : St :=
  { initSt with fns := [{ name := "__main", code := code, closing := [some 0] }, { name := "builtin", user := true }],
                data := data }

/-- `Extends` holds at the fault of a well-behaved code: `push 1; ret` (the `ret` fails: no
caller) — and the restored stacks are those of entry. -/
example : isErr ((run 5).run (withMain [.push (.int 1), .ret] [some (.int 9)])).1 = true
    ∧ ((run 5).run (withMain [.push (.int 1), .ret] [some (.int 9)])).2.data = [some (.int 9)]
    ∧ ((run 5).run (withMain [.push (.int 1), .ret] [some (.int 9)])).2.linear = [some 0] := by
  refine ⟨by decide +kernel, by decide +kernel, by decide +kernel⟩

/-- **pad_counterexample** — exactness is FALSE without the frame condition: `pop; ret` run on a
data stack `[9]` pops the caller's cell, fails at `ret`, and `restoreControlState` grows the
data stack back to size 1 with a NIL cell. Sizes as captured (part 1), contents not. -/
theorem pad_counterexample :
    isErr ((run 5).run (withMain [.pop, .ret] [some (.int 9)])).1 = true
    ∧ ((run 5).run (withMain [.pop, .ret] [some (.int 9)])).2.data = [none] := ⟨by decide +kernel, by decide +kernel⟩

/-- the same on the scope stack: `removeScope; ret` at top level pops the GLOBAL scope; after
the error the scope stack has size 1 again — one nil cell. -/
theorem pad_scope_counterexample :
    isErr ((run 5).run (withMain [.removeScope, .ret] [])).1 = true
    ∧ ((run 5).run (withMain [.removeScope, .ret] [])).2.linear = [none] := ⟨by decide +kernel, by decide +kernel⟩

/-- **fits_not_enough_counterexample** — "the recorded sizes do not exceed the present ones"
(`Fits`, no padding) does not give the contents either: `pop; push 7; ret` replaces the
caller's cell. -/
theorem fits_not_enough_counterexample :
    isErr ((run 5).run (withMain [.pop, .push (.int 7), .ret] [some (.int 9)])).1 = true
    ∧ ((run 5).run (withMain [.pop, .push (.int 7), .ret] [some (.int 9)])).2.data = [some (.int 7)] := ⟨by decide +kernel, by decide +kernel⟩

/-! ### the top level -/

/-- **runText_error_exact** — at the top level the data and address stacks are EXACT without
any hypothesis (they are empty); the one content left is the global scope at the bottom of
the scope stack, which is there iff the failing instruction stopped with it still in place. -/
theorem runText_error_linear (fuel : Nat) (s₀ s₁ s' : St) (hl : s₀.linear = [some 0])
    (_hf : FaultState fuel s₀ s₁) (hs' : s' = park (restoreSt (captureOf s₀) s₁))
    (hext : [some 0] <:+ linAt (captureOf s₀) s₁) : s'.linear = [some 0] := by
  subst hs'
  show truncate (linAt (captureOf s₀) s₁) s₀.linear.length = [some 0]
  rw [hl]
  exact truncate_of_suffix _ [some 0] hext

end ZygoVerif.Contain
