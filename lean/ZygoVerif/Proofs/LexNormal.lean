/-
Single-rune facts about the normal mode of the lexer model (used for printed text): plain
runes go to the buffer, white space and brackets flush the pending atom.
-/
import ZygoVerif.Proofs.LexShape
namespace ZygoVerif.Lexer

/-- the runes `LexerNormal` treats specially -/
def isSpecial (r : Char) : Bool :=
  r == '+' || r == '-' || r == '*' || r == '<' || r == '>' || r == '=' || r == '!' || r == '&' || r == '|' ||
  r == '/' || r == '`' || r == '"' || r == '\'' || r == ';' || r == ',' || r == ':' || r == '%' || r == '^' ||
  r == '~' || r == '(' || r == ')' || r == '[' || r == ']' || r == '{' || r == '}' || r == '\n' || r == ' ' ||
  r == '\t' || r == '\r'

theorem stepNormal_plain (s : LexCore) (r : Char) (h : isSpecial r = false) : stepNormal s r = writeRune s r := by
  simp only [isSpecial, Bool.or_eq_false_iff, beq_eq_false_iff_ne] at h
  obtain ⟨⟨⟨⟨⟨⟨⟨⟨⟨⟨⟨⟨⟨⟨⟨⟨⟨⟨⟨⟨⟨⟨⟨⟨⟨⟨⟨⟨h1, h2⟩, h3⟩, h4⟩, h5⟩, h6⟩, h7⟩, h8⟩, h9⟩, h10⟩, h11⟩, h12⟩, h13⟩, h14⟩, h15⟩, h16⟩, h17⟩, h18⟩,
    h19⟩, h20⟩, h21⟩, h22⟩, h23⟩, h24⟩, h25⟩, h26⟩, h27⟩, h28⟩, h29⟩ := h
  simp [stepNormal, *]

theorem stepMode_normal (s : LexCore) (r : Char) (h : s.state = .normal) : stepMode s r = stepNormal s r := by
  simp only [stepMode, h]

theorem lex_plain (b : List Char) (T : List Token) (l r : Char) (h : isSpecial r = false) :
    Lex ⟨.normal, b, T, l⟩ [r] ⟨.normal, b ++ [r], T, r⟩ := by
  apply Lex.step
  intro s hs
  have hst : (pushRing s r).state = .normal := hs.state
  refine ⟨{ pushRing s r with buffer := (pushRing s r).buffer ++ [r] }, ?_, hst, ?_, hs.tokens, rfl, rfl, rfl⟩
  · rw [stepMode_normal _ _ hst, stepNormal_plain _ _ h]; rfl
  · show s.buffer ++ [r] = b ++ [r]
    rw [hs.buffer]

theorem lex_plain_run (cs : List Char) (h : ∀ c ∈ cs, isSpecial c = false) (b : List Char) (T : List Token) (l : Char) :
    Lex ⟨.normal, b, T, l⟩ cs ⟨.normal, b ++ cs, T, (l :: cs).getLast (by simp)⟩ := by
  induction cs generalizing b l with
  | nil => simpa using Lex.nil _
  | cons c cs ih =>
    have h1 := lex_plain b T l c (h c (by simp))
    have h2 := ih (fun x hx => h x (by simp [hx])) (b ++ [c]) c
    have := Lex.cons h1 h2
    simpa [List.getLast_cons] using this

theorem dumpBuffer_empty (s : LexCore) (h : s.buffer = []) : dumpBuffer s = .ok s := by
  simp [dumpBuffer, h]

theorem dumpBuffer_atom (s : LexCore) (t : Token) (hne : s.buffer ≠ []) (hd : decodeAtom s.buffer = .ok t) :
    dumpBuffer s = .ok (appendToken { s with buffer := [] } t) := by
  have : s.buffer.isEmpty = false := by
    cases hb : s.buffer with
    | nil => exact absurd hb hne
    | cons a b => rfl
  simp [dumpBuffer, this, hd]

/-- the tokens a pending buffer turns into when the atom ends -/
def flush (b : List Char) : List Token :=
  if b.isEmpty then [] else
  match decodeAtom b with
  | .ok t => [t]
  | .error _ => []

/-- the buffer is empty or holds a well-formed atom -/
def Flushable (b : List Char) : Prop := b = [] ∨ ∃ t, decodeAtom b = .ok t

theorem thenDump_flush (s : LexCore) (k : LexCore → Outcome LexCore) (hf : Flushable s.buffer) :
    ∃ s1, thenDump s k = k s1 ∧ s1.buffer = [] ∧ s1.tokens = s.tokens ++ flush s.buffer ∧ s1.state = s.state ∧
      s1.priorRune = s.priorRune ∧ s1.priori = s.priori := by
  rcases hf with hb | ⟨t, ht⟩
  · refine ⟨s, by simp [thenDump, dumpBuffer_empty s hb], hb, by simp [flush, hb], rfl, rfl, rfl⟩
  · by_cases hb : s.buffer = []
    · refine ⟨s, by simp [thenDump, dumpBuffer_empty s hb], hb, by simp [flush, hb], rfl, rfl, rfl⟩
    · have hne : s.buffer.isEmpty = false := by
        cases hbb : s.buffer with
        | nil => exact absurd hbb hb
        | cons a b => rfl
      refine ⟨appendToken { s with buffer := [] } t, by simp [thenDump, dumpBuffer_atom s t hb ht], rfl, ?_, rfl, rfl, rfl⟩
      simp [appendToken, flush, hne, ht]

def isBlank (r : Char) : Bool := r == ' ' || r == '\n' || r == '\t' || r == '\r'

theorem lex_blank (b : List Char) (T : List Token) (l r : Char) (hr : isBlank r = true) (hf : Flushable b) :
    Lex ⟨.normal, b, T, l⟩ [r] ⟨.normal, [], T ++ flush b, r⟩ := by
  apply Lex.step
  intro s hs
  have hst : (pushRing s r).state = .normal := hs.state
  simp only [isBlank, Bool.or_eq_true, beq_iff_eq] at hr
  rcases hr with ((rfl | rfl) | rfl) | rfl
  · obtain ⟨s1, h1, h2, h3, h4, h5, h6⟩ := thenDump_flush (pushRing s ' ') .ok (by rw [show (pushRing s ' ').buffer = b from hs.buffer]; exact hf)
    refine ⟨s1, ?_, by rw [h4]; exact hst, h2, ?_, h5, h6, rfl⟩
    · rw [stepMode_normal _ _ hst]; simpa [stepNormal] using h1
    · rw [h3]; show s.tokens ++ flush s.buffer = _; rw [hs.tokens, hs.buffer]
  · obtain ⟨s1, h1, h2, h3, h4, h5, h6⟩ := thenDump_flush { pushRing s '\n' with linenum := (pushRing s '\n').linenum + 1 } .ok
      (by show Flushable s.buffer; rw [hs.buffer]; exact hf)
    refine ⟨s1, ?_, by rw [h4]; exact hst, h2, ?_, h5, h6, rfl⟩
    · rw [stepMode_normal _ _ hst]; simpa [stepNormal] using h1
    · rw [h3]; show s.tokens ++ flush s.buffer = _; rw [hs.tokens, hs.buffer]
  · obtain ⟨s1, h1, h2, h3, h4, h5, h6⟩ := thenDump_flush (pushRing s '\t') .ok (by rw [show (pushRing s '\t').buffer = b from hs.buffer]; exact hf)
    refine ⟨s1, ?_, by rw [h4]; exact hst, h2, ?_, h5, h6, rfl⟩
    · rw [stepMode_normal _ _ hst]; simpa [stepNormal] using h1
    · rw [h3]; show s.tokens ++ flush s.buffer = _; rw [hs.tokens, hs.buffer]
  · obtain ⟨s1, h1, h2, h3, h4, h5, h6⟩ := thenDump_flush (pushRing s '\r') .ok (by rw [show (pushRing s '\r').buffer = b from hs.buffer]; exact hf)
    refine ⟨s1, ?_, by rw [h4]; exact hst, h2, ?_, h5, h6, rfl⟩
    · rw [stepMode_normal _ _ hst]; simpa [stepNormal] using h1
    · rw [h3]; show s.tokens ++ flush s.buffer = _; rw [hs.tokens, hs.buffer]

def isBrace (r : Char) : Bool := r == '(' || r == ')' || r == '[' || r == ']' || r == '{' || r == '}'

theorem lex_brace (b : List Char) (T : List Token) (l r : Char) (hr : isBrace r = true) (hf : Flushable b) :
    Lex ⟨.normal, b, T, l⟩ [r] ⟨.normal, [], T ++ flush b ++ [braceTok r], r⟩ := by
  apply Lex.step
  intro s hs
  have hst : (pushRing s r).state = .normal := hs.state
  obtain ⟨s1, h1, h2, h3, h4, h5, h6⟩ := thenDump_flush (pushRing s r) (fun s' => .ok (appendToken s' (braceTok r)))
    (by rw [show (pushRing s r).buffer = b from hs.buffer]; exact hf)
  refine ⟨appendToken s1 (braceTok r), ?_, by simpa [appendToken] using h4.trans hst, by simpa [appendToken] using h2, ?_, h5, h6, rfl⟩
  · rw [stepMode_normal _ _ hst, ← h1]
    simp only [isBrace, Bool.or_eq_true, beq_iff_eq] at hr
    rcases hr with ((((rfl | rfl) | rfl) | rfl) | rfl) | rfl <;> simp [stepNormal]
  · simp only [appendToken, h3]
    show s.tokens ++ flush s.buffer ++ _ = _
    rw [hs.tokens, hs.buffer]

end ZygoVerif.Lexer
