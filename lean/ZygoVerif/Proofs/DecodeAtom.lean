/-
`DecodeAtom` on the atoms the printer writes: the cascade of recognisers, evaluated for whole
classes of atoms (every character literal, every decimal numeral, every `…ULL` numeral).
-/
import ZygoVerif.Model.Lexer
import ZygoVerif.Model.PrintData
namespace ZygoVerif.Lexer
open ZygoVerif.PrintData

/-- the cascade up to `DecimalRegex` -/
theorem decodeAtom_decimal (a : List Char) (h0 : a.getLast? ≠ some ':') (h1 : a ≠ ['&']) (h2 : a ≠ ['\\'])
    (h3 : boolRe a = false) (h4 : uint64Re a = false) (h5 : decimalRe a = true) :
    decodeAtom a = .ok ⟨.decimal, a⟩ := by
  unfold decodeAtom
  have hc : (a.getLast? == some ':') = false := by simpa using h0
  simp only [hc, Bool.false_eq_true, ↓reduceIte]
  have e1 : (a == ['&']) = false := by simpa using h1
  have e2 : (a == ['\\']) = false := by simpa using h2
  simp only [e1, e2, h3, h4, h5, Bool.false_eq_true, ↓reduceIte]

theorem decodeAtom_uint64 (a : List Char) (h0 : a.getLast? ≠ some ':') (h1 : a ≠ ['&']) (h2 : a ≠ ['\\'])
    (h3 : boolRe a = false) (h4 : uint64Re a = true) :
    decodeAtom a = .ok ⟨.uint64, a⟩ := by
  unfold decodeAtom
  have hc : (a.getLast? == some ':') = false := by simpa using h0
  simp only [hc, Bool.false_eq_true, ↓reduceIte]
  have e1 : (a == ['&']) = false := by simpa using h1
  have e2 : (a == ['\\']) = false := by simpa using h2
  simp only [e1, e2, h3, h4, Bool.false_eq_true, ↓reduceIte]

/-! ## atoms that start with a single quote -/

theorem true_toList : "true".toList = ['t', 'r', 'u', 'e'] := by decide
theorem false_toList : "false".toList = ['f', 'a', 'l', 's', 'e'] := by decide

theorem boolRe_head (c : Char) (r : List Char) (h1 : c ≠ 't') (h2 : c ≠ 'f') : boolRe (c :: r) = false := by
  simp [boolRe, true_toList, false_toList, h1, h2]

theorem digThenDigU_head (c : Char) (r : List Char) (h : isDig c = false) : digThenDigU (c :: r) = false := by
  simp [digThenDigU, h]

theorem decimalRe_head (c : Char) (r : List Char) (h : isDig c = false) (hm : c ≠ '-') : decimalRe (c :: r) = false := by
  have : dropMinus (c :: r) = c :: r := by
    unfold dropMinus
    split
    · rename_i heq; simp only [List.cons.injEq] at heq; exact absurd heq.1.symm (by simpa using hm.symm)
    · rfl
  simp [decimalRe, this, digThenDigU_head c r h]

theorem floatRe_head (c : Char) (r : List Char) (h : isDig c = false) (hm : c ≠ '-') (hd : c ≠ '.') :
    floatRe (c :: r) = false := by
  have : dropMinus (c :: r) = c :: r := by
    unfold dropMinus
    split
    · rename_i heq; simp only [List.cons.injEq] at heq; exact absurd heq.1.symm (by simpa using hm.symm)
    · rfl
  unfold floatRe
  rw [this]
  unfold floatBody
  split
  · rename_i heq; simp only [List.cons.injEq] at heq; exact absurd heq.1 hd
  · rename_i c' r' _ heq; simp only [List.cons.injEq] at heq; obtain ⟨rfl, rfl⟩ := heq; simp [h]
  · rfl

theorem based_head (c : Char) (r : List Char) (h : c ≠ '0') :
    hexRe (c :: r) = false ∧ octRe (c :: r) = false ∧ binaryRe (c :: r) = false := by
  refine ⟨?_, ?_, ?_⟩
  · unfold hexRe; split
    · rename_i heq; simp only [List.cons.injEq] at heq; exact absurd heq.1 h
    · rfl
  · unfold octRe; split
    · rename_i heq; simp only [List.cons.injEq] at heq; exact absurd heq.1 h
    · rfl
  · unfold binaryRe; split
    · rename_i heq; simp only [List.cons.injEq] at heq; exact absurd heq.1 h
    · rfl

theorem splitDots_ne_nil (a : List Char) : splitDots a ≠ [] := by
  induction a with
  | nil => simp [splitDots]
  | cons c r ih =>
    unfold splitDots
    split
    · split <;> simp
    · simp

/-- an atom whose first rune cannot start a dotted name is no dot symbol -/
theorem dotSymbolRe_head (c : Char) (r : List Char) (h : dotFirst c = false) (hd : c ≠ '.') : dotSymbolRe (c :: r) = false := by
  unfold dotSymbolRe
  have h1 : ¬ ((c :: r == ['.']) = true) := by
    intro heq
    have : c :: r = ['.'] := by simpa using heq
    simp only [List.cons.injEq] at this; exact hd this.1
  rw [if_neg h1]
  have hs : ∃ seg segs, splitDots (c :: r) = (c :: seg) :: segs := by
    cases hsr : splitDots r with
    | nil => exact absurd hsr (splitDots_ne_nil r)
    | cons seg segs =>
      refine ⟨seg, segs, ?_⟩
      have hcd : (c == '.') = false := by simpa using hd
      simp [splitDots, hsr, hcd]
  obtain ⟨seg, segs, hs⟩ := hs
  rw [hs]
  simp [dotSeg, h]

theorem builtinOp_heads : ∀ s ∈ builtinOps, ∀ c, s.toList.head? = some c → c ∈ ['+', '-', '=', ':', '*', '<', '>', '/', '!', '&', '|'] := by
  decide

theorem builtinOpRe_head (c : Char) (r : List Char) (h : c ∉ ['+', '-', '=', ':', '*', '<', '>', '/', '!', '&', '|']) :
    builtinOpRe (c :: r) = false := by
  unfold builtinOpRe
  rw [Bool.eq_false_iff]
  intro hany
  rw [List.any_eq_true] at hany
  obtain ⟨s, hs, heq⟩ := hany
  have : s.toList = c :: r := by simpa using heq
  exact h (builtinOp_heads s hs c (by rw [this]; rfl))

theorem symbolRe_head (c : Char) (r : List Char) (h : symFirst c = false) (h1 : c ≠ '#') (h2 : c ≠ '?') :
    symbolRe (c :: r) = false := by
  unfold symbolRe
  dsimp only
  split
  · rfl
  · rename_i c' r' heq
    split at heq
    · rename_i heq2; simp only [List.cons.injEq] at heq2; exact absurd heq2.1 h1
    · rename_i heq2; simp only [List.cons.injEq] at heq2; exact absurd heq2.1 h2
    · simp only [List.cons.injEq] at heq; obtain ⟨rfl, rfl⟩ := heq; simp [h]

theorem uint64Re_last (a : List Char) (c : Char) (h : a.getLast? = some c) (hc : c ≠ 'L') : uint64Re a = false := by
  unfold uint64Re
  have : stripSuffix? "ULL".toList a = none := by
    unfold stripSuffix?
    split
    · rename_i hcond
      exfalso
      obtain ⟨hlen, hdrop⟩ := hcond
      have h3 : "ULL".toList.length = 3 := by decide
      rw [h3] at hlen hdrop
      have hl : (a.drop (a.length - 3)).getLast? = a.getLast? := by
        rw [List.getLast?_drop]
        have : ¬ a.length ≤ a.length - 3 := by omega
        simp [this]
      rw [hdrop, h] at hl
      have : ("ULL".toList).getLast? = some 'L' := by decide
      rw [this] at hl
      exact hc (Option.some.inj hl).symm
    · rfl
  rw [this]

/-- **every character literal**: `'c'` is classified as the character token `c` -/
theorem decodeAtom_char (c : Char) : decodeAtom ['\'', c, '\''] = .ok ⟨.char, [c]⟩ := by
  have hlast : (['\'', c, '\''] : List Char).getLast? = some '\'' := rfl
  have h3 := boolRe_head '\'' [c, '\''] (by decide) (by decide)
  have h4 := uint64Re_last ['\'', c, '\''] '\'' hlast (by decide)
  have h5 := decimalRe_head '\'' [c, '\''] (by decide) (by decide)
  obtain ⟨h6, h7, h8⟩ := based_head '\'' [c, '\''] (by decide)
  have h9 := floatRe_head '\'' [c, '\''] (by decide) (by decide) (by decide)
  have h10 : infRe ['\'', c, '\''] = false := by simp [infRe]
  have h11 := dotSymbolRe_head '\'' [c, '\''] (by decide) (by decide)
  have h12 := builtinOpRe_head '\'' [c, '\''] (by decide)
  have h13 := symbolRe_head '\'' [c, '\''] (by decide) (by decide) (by decide)
  unfold decodeAtom
  have hc : ((['\'', c, '\''] : List Char).getLast? == some ':') = false := by rw [hlast]; decide
  simp only [hc, Bool.false_eq_true, ↓reduceIte]
  have e1 : ((['\'', c, '\''] : List Char) == ['&']) = false := by simp
  have e2 : ((['\'', c, '\''] : List Char) == ['\\']) = false := by simp
  have e3 : ((['\'', c, '\''] : List Char) == "NaN".toList || (['\'', c, '\''] : List Char) == "nan".toList) = false := by
    have a1 : "NaN".toList = ['N', 'a', 'N'] := by decide
    have a2 : "nan".toList = ['n', 'a', 'n'] := by decide
    simp [a1, a2]
  have e4 : ((['\'', c, '\''] : List Char) == [':']) = false := by simp
  simp only [e1, e2, e3, e4, h3, h4, h5, h6, h7, h8, h9, h10, h11, h12, h13, Bool.false_eq_true, ↓reduceIte]
  simp [charRe, decodeChar]

end ZygoVerif.Lexer
