/-
C06 front end, glue: the text of a legal spacing of a block, delivered to the parser model,
yields exactly the token array of the block — whatever the spacing.
  lexing the text                 Proofs/LexSpacingSpec.lex_spacing
  lazy = eager lexing             Proofs/ReadEager.runA_ahead
  parsing the complete queue      Proofs/InfixRead.parse_block
  concrete = abstract interpreter Props/C13.parseChunksFrom_eq_abstract
  the fuel of `parseChunks`       cost bounds below
-/
import ZygoVerif.Proofs.InfixRead
import ZygoVerif.Proofs.ReadPrintMain
import ZygoVerif.Model.InfixFront
namespace ZygoVerif.InfixRead
open ZygoVerif ZygoVerif.Lexer ZygoVerif.Parser
open ZygoVerif.Spacing (Tok Src)

/-! ## the fuel of `parseChunks` suffices -/

theorem toks_length_pos (x : Src) : 1 ≤ (toks x).length := by
  cases x <;> simp [toks, Src.flat]

mutual
theorem costTok_bound : (x : Src) → costTok x ≤ 2 * (toks x).length
  | .tok t => by simp [costTok, toks_tok]
  | .arr xs => by
    have := costSeq_bound xs
    simp only [costTok, toks_arr, List.length_cons, List.length_append, List.length_nil]; omega
  | .call xs => by
    have := costSeq_bound xs
    simp only [costTok, toks_call, List.length_cons, List.length_append, List.length_nil]; omega
  | .block xs => by
    have := costSeq_bound xs
    simp only [costTok, toks_block, List.length_cons, List.length_append, List.length_nil]; omega
theorem costSeq_bound : (xs : List Src) → costSeq xs ≤ 2 * (toksL xs).length + 2
  | [] => by simp [costSeq]
  | x :: r => by
    have h1 := costTok_bound x
    have h2 := costSeq_bound r
    have h3 := toks_length_pos x
    simp only [costSeq, toksL_cons, List.length_append]; omega
end

theorem renderItems_length (items : List Spacing.Item) (h : ∀ it ∈ items, it.2.text ≠ []) :
    items.length ≤ (Spacing.renderItems items).length := by
  induction items with
  | nil => simp
  | cons it rest ih =>
    obtain ⟨g, R⟩ := it
    have h1 : 1 ≤ R.text.length := by
      have := h (g, R) (by simp)
      cases ht : R.text with
      | nil => exact absurd ht this
      | cons a b => simp
    have h2 := ih (fun x hx => h x (by simp [hx]))
    simp only [Spacing.renderItems, List.length_cons, List.length_append]; omega

/-! ## a block at the top level -/

/-- a non-empty block, whatever follows it in the queue -/
theorem parse_block (x : Src) (xs : List Src) (hok : okL (x :: xs) = true) (f : Nat) (hf : costTok (.block (x :: xs)) ≤ f) :
    Consumes (parseExprTok f tLC) (toksL (x :: xs) ++ [tRC]) (toSexp (.block (x :: xs))) := by
  simp only [costTok] at hf
  have hpos : 2 ≤ costSeq (x :: xs) := by simp [costSeq]; omega
  obtain ⟨f', rfl⟩ : ∃ f', f = f' + 3 := ⟨f - 3, by omega⟩
  have hx1 : okSrc x = true := by simp only [okL, Bool.and_eq_true] at hok; exact hok.1
  obtain ⟨t2, ts2, hts2, hh2⟩ := toks_head x hx1
  have hinf := parse_infix (x :: xs) hok [] (f' + 1) (by omega) (Or.inr (by simp))
  intro c rest ex hc
  have hq : c.tokens = t2 :: (ts2 ++ toksL xs ++ [tRC] ++ rest) := by
    rw [hc, toksL_cons, hts2]; simp
  rw [show f' + 3 = (f' + 1) + 2 from rfl, parseExprTok_lcurly (f' + 1) c ex t2 _ hq hh2]
  have := hinf c rest ex hc
  simpa [toSexp] using this

/-- **the front end on a legal spacing**: the text of a non-empty block `{ xs }` written in any legal
spacing (`items` spaces the tokens `{`, those of `xs`, `}`), delivered in any pieces to a parser
with any history, is read as one expression: the infix block holding the expressions of `xs`. -/
theorem read_block (x : Src) (xs : List Src) (hok : okL (x :: xs) = true) (items : List Spacing.Item)
    (hitems : items.map (·.2) = Src.flat (.block (x :: xs))) (hlegal : Spacing.legal '\x00' items = true)
    (l : LexState) (cs : List (List Char)) (hcs : cs.flatten = Spacing.renderItems items) :
    (parseChunksFrom l cs).status = .done ∧ (parseChunksFrom l cs).exprs = [toSexp (.block (x :: xs))] := by
  obtain ⟨hst, hex⟩ := Props.C13.parseChunksFrom_eq_abstract l cs
  -- lexing the whole text
  have hlex := lex_spacing items '\x00' '\n' (by decide) hlegal []
  obtain ⟨cf, hfeed, hcf⟩ := hlex LexCore.init ⟨rfl, rfl, rfl, ringOK_init, lastRune_init⟩
  have htoks : cf.tokens = tLC :: (toksL (x :: xs) ++ [tRC]) := by
    have : items.map (fun it => expTok it.2) = (items.map (·.2)).map expTok := by simp
    have h1 := hcf.tokens
    simp only [List.nil_append] at h1
    rw [h1, this, hitems, ← toks_block]; rfl
  -- lazy = eager
  have hrunes : cs.flatten ++ eofPiece = Spacing.renderItems items ++ ['\n'] := by rw [hcs]; rfl
  rw [hrunes] at hst hex
  have hahead := runA_ahead (topLoop (fuelFor cs)) ⟨LexCore.init, Spacing.renderItems items ++ ['\n'], [], true⟩ ⟨cf, [], [], true⟩
    ⟨hfeed, rfl, rfl, rfl⟩
  -- the fuel
  have hwf := legal_wf '\x00' items hlegal
  have hlen := renderItems_length items (fun it hit => tok_text_ne_nil it.2 (hwf it hit))
  have hilen : items.length = (toks (.block (x :: xs))).length := by
    have := congrArg List.length hitems
    simpa [toks] using this
  have hcost := costTok_bound (.block (x :: xs))
  have hfuel : fuelFor cs = (4 * (Spacing.renderItems items).length + 14) + 2 := by simp [fuelFor, hcs]
  -- parsing the tokens
  have hcons := parse_block x xs hok (4 * (Spacing.renderItems items).length + 14 + 1) (by omega)
  have hlit : inLiteral cf = false := by simp [inLiteral, hcf.state]
  have hrun := ReadPrint.topLoop_one (4 * (Spacing.renderItems items).length + 14) cf tLC (toksL (x :: xs) ++ [tRC]) _ htoks hlit hcons
  rw [← hfuel] at hrun
  simp only [tv] at hrun
  rw [hrun] at hahead
  obtain ⟨h1, h2⟩ := hahead
  rw [h1] at hst
  rw [h2] at hex
  exact ⟨hst, hex⟩

/-- the token array of the Pratt model for a block: a function of the source tree alone -/
def blockSx (xs : List Src) : List Pratt.Sx := Sexp.listSx (elems xs)

/-- **`blockOf` on a legal spacing** is the token array of the source tree -/
theorem blockOf_legal (x : Src) (xs : List Src) (hok : okL (x :: xs) = true) (items : List Spacing.Item)
    (hitems : items.map (·.2) = Src.flat (.block (x :: xs))) (hlegal : Spacing.legal '\x00' items = true) :
    InfixFront.blockOf (Spacing.renderItems items) = some (blockSx (x :: xs)) := by
  obtain ⟨h1, h2⟩ := read_block x xs hok items hitems hlegal LexState.init [Spacing.renderItems items] (by simp)
  unfold InfixFront.blockOf parseChunks
  simp only [h1, h2, toSexp, Parser.sym, Sexp.mkSym]
  simp [blockSx]

theorem tokSexp_not_comment (t : Tok) (h : atomOK t = true) : Sexp.isComment (tokSexp (expTok t)) = false := by
  have htyp := atom_typ t h
  unfold tokSexp
  by_cases hs : (expTok t).typ = .symbol
  · simp [hs, Sexp.isComment]
  · have hs' : ((expTok t).typ == TokType.symbol) = false := by simpa using hs
    simp only [hs', Bool.false_eq_true, ↓reduceIte]
    rcases htyp with h1 | h1 | h1 | h1 | h1 | h1 | h1
    · exact absurd h1 hs
    · simp [atomOfTok, h1, Sexp.isComment]
    · simp only [atomOfTok, h1]
      cases NumLit.parseInt64 10 (List.filter (fun x => x != '_') (expTok t).str) <;> simp [Sexp.isComment]
    · simp only [atomOfTok, h1]
      by_cases hnan : ((expTok t).str == "NaN".toList) = true
      · simp only [hnan, ↓reduceIte]; rfl
      · simp only [hnan, Bool.false_eq_true, ↓reduceIte]
        cases NumLit.parseFloat (expTok t).str <;> simp [Sexp.isComment]
    · simp [atomOfTok, h1, Sexp.isComment]
    · simp [atomOfTok, h1, Sexp.isComment]
    · simp [atomOfTok, h1, Sexp.isComment]

theorem toSexp_not_comment (x : Src) (h : okSrc x = true) : Sexp.isComment (toSexp x) = false := by
  cases x with
  | tok t => simpa [toSexp] using tokSexp_not_comment t (by simpa [okSrc] using h)
  | arr xs => simp [toSexp, Sexp.isComment]
  | call xs => cases xs <;> simp [toSexp, callList, Sexp.isComment]
  | block xs => cases xs <;> simp [toSexp, Sexp.isComment]

/-- a non-empty block has a non-empty token array -/
theorem blockSx_ne_nil (x : Src) (xs : List Src) (hok : okL (x :: xs) = true) : blockSx (x :: xs) ≠ [] := by
  simp only [okL, Bool.and_eq_true] at hok
  simp [blockSx, elems, Sexp.listSx, toSexp_not_comment x hok.1]

end ZygoVerif.InfixRead
