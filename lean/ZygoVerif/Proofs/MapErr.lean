/-
`map` never swallows an error (C05, "errors are never swallowed into a successful result"):
on the VM model, the outcome of `map` over a list / an array is, element by element, the outcome
of the callback — the first failing application IS the outcome of the whole `map`, from every
state, for every callback and fuel.
-/
import ZygoVerif.Model.VM
namespace ZygoVerif.VM
open ZygoVerif.Core

/-- one element of `MapList`: the callback's fault is handed on unchanged, with the state the
callback left; otherwise the rest of the list decides -/
theorem mapList_cons_run (n : Nat) (f a b : Val) (s : St) :
    (mapList (n+1) f (.pair a b)).run.run s =
      (match (applyFn n f [a]).run.run s with
      | (.error e, s1) => (.error e, s1)
      | (.ok v, s1) =>
        match (mapList n f b).run.run s1 with
        | (.error e, s2) => (.error e, s2)
        | (.ok t, s2) => (.ok (.pair v t), s2)) := by
  conv => lhs; unfold mapList
  simp only [bind, ExceptT.bind, ExceptT.run, ExceptT.mk, ExceptT.bindCont, StateT.bind, StateT.run, pure, ExceptT.pure]
  cases h : (applyFn n f [a]) s with
  | mk r s1 =>
    cases r with
    | error e => simp [StateT.pure, pure]
    | ok v =>
      simp only []
      cases h2 : (mapList n f b) s1 with
      | mk r2 s2 => cases r2 <;> simp only [h2, StateT.bind, ExceptT.bindCont] <;> rfl

/-- a failing callback on the head element is the outcome of the whole `map` -/
theorem mapList_head_error (n : Nat) (f a b : Val) (s s1 : St) (e : Fault)
    (h : (applyFn n f [a]).run.run s = (.error e, s1)) :
    (mapList (n+1) f (.pair a b)).run.run s = (.error e, s1) := by
  rw [mapList_cons_run, h]

/-- a failing callback on ANY LATER element is the outcome of the whole `map` (the step that
carries the error outwards through every earlier, successful element) -/
theorem mapList_tail_error (n : Nat) (f a b : Val) (s s1 s2 : St) (v : Val) (e : Fault)
    (h : (applyFn n f [a]).run.run s = (.ok v, s1))
    (ht : (mapList n f b).run.run s1 = (.error e, s2)) :
    (mapList (n+1) f (.pair a b)).run.run s = (.error e, s2) := by
  rw [mapList_cons_run, h]; simp only []; rw [ht]

/-- hence: a `map` that returned a value had every callback return a value -/
theorem mapList_ok_inv (n : Nat) (f a b r : Val) (s s' : St)
    (h : (mapList (n+1) f (.pair a b)).run.run s = (.ok r, s')) :
    ∃ v s1 t, (applyFn n f [a]).run.run s = (.ok v, s1) ∧ (mapList n f b).run.run s1 = (.ok t, s') ∧ r = .pair v t := by
  rw [mapList_cons_run] at h
  cases h1 : (applyFn n f [a]).run.run s with
  | mk r1 s1 =>
    rw [h1] at h
    cases r1 with
    | error e => cases h
    | ok v =>
      simp only [] at h
      cases h2 : (mapList n f b).run.run s1 with
      | mk r2 s2 =>
        rw [h2] at h
        cases r2 with
        | error e => cases h
        | ok t =>
          cases h
          exact ⟨v, s1, t, rfl, h2, rfl⟩

/-- one element of `MapArray` (`i < n`): the callback's fault is handed on unchanged; otherwise
the remaining elements decide -/
theorem mapArr_step_run (k : Nat) (f : Val) (r i n : Nat) (hi : ¬ i ≥ n) (s : St) :
    (mapArr (k+1) f r i n).run.run s =
      (match (applyFn k f [(s.heap.get r).getD i .nil]).run.run s with
      | (.error e, s1) => (.error e, s1)
      | (.ok v, s1) =>
        match (mapArr k f r (i + 1) n).run.run s1 with
        | (.error e, s2) => (.error e, s2)
        | (.ok vs, s2) => (.ok (v :: vs), s2)) := by
  conv => lhs; unfold mapArr
  simp only [hi, if_false, bind, ExceptT.bind, ExceptT.run, ExceptT.mk, ExceptT.bindCont, StateT.bind, StateT.run, pure, ExceptT.pure,
    get, getThe, MonadStateOf.get, liftM, monadLift, MonadLift.monadLift, ExceptT.lift, StateT.get, Functor.map, StateT.map]
  cases h : (applyFn k f [(s.heap.get r).getD i .nil]) s with
  | mk r1 s1 =>
    cases r1 with
    | error e => simp [StateT.pure, pure]
    | ok v =>
      simp only []
      cases h2 : (mapArr k f r (i + 1) n) s1 with
      | mk r2 s2 => cases r2 <;> simp only [h2, StateT.bind, ExceptT.bindCont] <;> rfl

/-- a failing callback on any element of an array is the outcome of the rest of the `map` -/
theorem mapArr_elem_error (k : Nat) (f : Val) (r i n : Nat) (hi : ¬ i ≥ n) (s s1 : St) (e : Fault)
    (h : (applyFn k f [(s.heap.get r).getD i .nil]).run.run s = (.error e, s1)) :
    (mapArr (k+1) f r i n).run.run s = (.error e, s1) := by
  rw [mapArr_step_run k f r i n hi, h]

end ZygoVerif.VM
