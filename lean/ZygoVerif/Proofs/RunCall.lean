/-
Proofs/RunCall.lean — **the calling contract**, by induction on the fuel over the VM's mutual
block (`run`, `runLoop`, `exec`, `evalCallExpr`, `nested`, `prepareArgs`, `callResolved`,
`callUser`, `builtin`, `applyFn`, `mapArr`, `mapList`, `forceLazy`).

From a state that satisfies the table invariant `WF` (every function object verified, every
stored value storable) whenever one of these functions returns normally:
* the tables have only grown and `WF` holds again;
* a nested evaluation (`evalCallExpr`, `builtin`, `applyFn`, `forceLazy`, …) leaves the data stack
  (as the checker sees it), the scope stack, the address stack, the current function, the pc
  and the set-aside stacks exactly as they were, and returns a storable value;
* `callUser` pops its operands and pushes exactly one value;
* one instruction of a `Running` loop leaves it `Running` (one activation more after a call of a
  compiled function, one less after `ret`) or `Finished`;
* a `runLoop` that was `Running` ends `Finished`: the bottom activation has returned ONE value on
  the data it was entered with, at the scope depth and the address stack it was entered with.
-/
import ZygoVerif.Proofs.RunStep
set_option linter.unusedSimpArgs false
set_option linter.unusedVariables false
namespace ZygoVerif.RunInv
open ZygoVerif.Core ZygoVerif.VM ZygoVerif.Bal ZygoVerif.Refine ZygoVerif.TailVM ZygoVerif.Sim ZygoVerif.Contain

/-- the stacks and the control registers are what they were -/
structure SameCtl (s s' : St) : Prop where
  data : s'.data.map cellOf = s.data.map cellOf
  linear : s'.linear = s.linear
  addr : s'.addr = s.addr
  cur : s'.curfunc = s.curfunc
  pc : s'.pc = s.pc
  susp : s'.suspended = s.suspended

theorem SameCtl.refl (s : St) : SameCtl s s := ⟨rfl, rfl, rfl, rfl, rfl, rfl⟩

theorem SameCtl.trans {a b c : St} (h1 : SameCtl a b) (h2 : SameCtl b c) : SameCtl a c :=
  ⟨h2.data.trans h1.data, h2.linear.trans h1.linear, h2.addr.trans h1.addr, h2.cur.trans h1.cur,
   h2.pc.trans h1.pc, h2.susp.trans h1.susp⟩

/-- what a nested evaluation guarantees -/
structure Kept (s s' : St) : Prop where
  wf : WF s'
  ext : TExt s s'
  same : SameCtl s s'

theorem Kept.refl {s : St} (h : WF s) : Kept s s := ⟨h, TExt.refl s, SameCtl.refl s⟩

theorem Kept.trans {a b c : St} (h1 : Kept a b) (h2 : Kept b c) : Kept a c :=
  ⟨h2.wf, h1.ext.trans h2.ext, h1.same.trans h2.same⟩

/-- the loop is `Running` or `Finished` -/
def Live (b : Base) (s : St) : Prop := (∃ top rest, Running b s top rest) ∨ Finished b s

/-- the specifications of the functions of the mutual block, at one fuel -/
structure AllSpec (n : Nat) : Prop where
  exec : ∀ (b : Base) (s s' : St) (top : Act) (rest : List Act) (i : Instr), WF s → Running b s top rest →
    (fnOf s s.curfunc).code[s.pc.toNat]? = some i → (exec n i).run s = (.ok (), s') →
    WF s' ∧ TExt s s' ∧ Live b s' ∧ s'.suspended = s.suspended
  loop : ∀ (b : Base) (st : CtlState) (s s' : St), WF s → Live b s → b.pc = -2 →
    (runLoop n st).run s = (.ok (), s') → WF s' ∧ TExt s s' ∧ Finished b s' ∧ s'.suspended = s.suspended
  run : ∀ (b : Base) (s s' : St) (top : Act) (v : Val), WF s → Running b s top [] → b.pc = -2 →
    (run n).run s = (.ok v, s') →
    WF s' ∧ TExt s s' ∧ vok s'.fns.length v = true ∧ s'.data.map cellOf = b.data.map cellOf ∧ s'.linear = b.linear ∧
      s'.addr = b.addr ∧ s'.curfunc = b.cur ∧ s'.pc = -1 ∧ s'.suspended = s.suspended
  eval : ∀ (e : Expr) (s s' : St) (v : Val), WF s → okL e = true → (evalCallExpr n e).run s = (.ok v, s') →
    Kept s s' ∧ vok s'.fns.length v = true
  prep : ∀ (f : Option FnObj) (i : Nat) (args : List Expr) (s s' : St), WF s → okLs args = true →
    (prepareArgs n f i args).run s = (.ok (), s') →
    WF s' ∧ TExt s s' ∧ s'.data.map cellOf = List.replicate args.length .val ++ s.data.map cellOf ∧
      s'.linear = s.linear ∧ s'.addr = s.addr ∧ s'.curfunc = s.curfunc ∧ s'.pc = s.pc ∧ s'.suspended = s.suspended
  user : ∀ (name : String) (k : Nat) (s s' : St) (tail : List Cell), WF s →
    s.data.map cellOf = List.replicate k .val ++ tail → (callUser n name k).run s = (.ok (), s') →
    WF s' ∧ TExt s s' ∧ s'.data.map cellOf = .val :: tail ∧ s'.linear = s.linear ∧ s'.addr = s.addr ∧
      s'.curfunc = s.curfunc ∧ s'.pc = s.pc + 1 ∧ s'.suspended = s.suspended
  builtin : ∀ (name : String) (args : List Val) (s s' : St) (v : Val), WF s → (∀ a ∈ args, vok s.fns.length a = true) →
    (builtin n name args).run s = (.ok v, s') → Kept s s' ∧ vok s'.fns.length v = true
  apply : ∀ (f : Val) (args : List Val) (s s' : St) (v : Val), WF s → vok s.fns.length f = true →
    (∀ a ∈ args, vok s.fns.length a = true) →
    (applyFn n f args).run s = (.ok v, s') → Kept s s' ∧ vok s'.fns.length v = true
  mapArr : ∀ (f : Val) (r i k : Nat) (s s' : St) (vs : List Val), WF s → vok s.fns.length f = true →
    (mapArr n f r i k).run s = (.ok vs, s') → Kept s s' ∧ ∀ v ∈ vs, vok s'.fns.length v = true
  mapList : ∀ (f l : Val) (s s' : St) (v : Val), WF s → vok s.fns.length f = true → vok s.fns.length l = true →
    (mapList n f l).run s = (.ok v, s') → Kept s s' ∧ vok s'.fns.length v = true
  force : ∀ (id : Nat) (s s' : St) (v : Val), WF s → (forceLazy n id).run s = (.ok v, s') →
    Kept s s' ∧ vok s'.fns.length v = true

/-! ## `runLoop` and `run` -/

theorem runLoop_finished (n : Nat) (st : CtlState) (s : St) (h : s.pc = -1) :
    (runLoop (n + 1) st).run s = (.ok (), s) := by
  rw [runLoop]
  simp only [run_bind, run_get, run_ite, h, true_or, if_true, run_pure]

theorem loop_succ (n : Nat) (ih : AllSpec n) (b : Base) (st : CtlState) (s s' : St) (hw : WF s) (hl : Live b s)
    (hb : b.pc = -2) (hex : (runLoop (n + 1) st).run s = (.ok (), s')) :
    WF s' ∧ TExt s s' ∧ Finished b s' ∧ s'.suspended = s.suspended := by
  rcases hl with ⟨top, rest, hr⟩ | hf
  · obtain ⟨hns, i, hi⟩ := hr.fetch
    rw [runLoop] at hex
    simp only [run_bind, run_get, run_ite, hns, if_false, hi] at hex
    rcases hx : (exec n i).run s with ⟨r, s1⟩
    simp only [hx, run_set] at hex
    cases r with
    | error e => cases e <;> simp only [run_bind, run_restore, run_modify, run_throw] at hex <;> cases hex
    | ok u =>
      obtain ⟨hw1, he1, hl1, hs1⟩ := ih.exec b s s1 top rest i hw hr hi hx
      obtain ⟨hw2, he2, hf2, hs2⟩ := ih.loop b st s1 s' hw1 hl1 hb hex
      exact ⟨hw2, he1.trans he2, hf2, hs2.trans hs1⟩
  · have hpc : s.pc = -1 := by rw [hf.pc, hb]; rfl
    rw [runLoop_finished n st s hpc] at hex
    cases hex
    exact ⟨hw, TExt.refl s, hf, rfl⟩

theorem run_succ (n : Nat) (ih : AllSpec n) (b : Base) (s s' : St) (top : Act) (v : Val) (hw : WF s)
    (hr : Running b s top []) (hb : b.pc = -2) (hex : (run (n + 1)).run s = (.ok v, s')) :
    WF s' ∧ TExt s s' ∧ vok s'.fns.length v = true ∧ s'.data.map cellOf = b.data.map cellOf ∧ s'.linear = b.linear ∧
      s'.addr = b.addr ∧ s'.curfunc = b.cur ∧ s'.pc = -1 ∧ s'.suspended = s.suspended := by
  rw [run_succ_eq] at hex
  simp only [run_bind, run_capture] at hex
  rcases hl : (runLoop n (captureOf s)).run s with ⟨r, s2⟩
  rw [hl] at hex
  cases r with
  | error e => cases hex
  | ok u =>
    obtain ⟨hw2, he2, hf2, hs2⟩ := ih.loop b _ s s2 hw (Or.inl ⟨top, [], hr⟩) hb hl
    simp only at hex
    unfold runTail at hex
    simp only [run_bind, run_get] at hex
    have hd := hf2.data
    rcases hdd : s2.data with _ | ⟨c, rest⟩
    · rw [hdd] at hd; cases hd
    · rw [hdd] at hd
      simp only [List.map_cons, List.cons.injEq] at hd
      cases c with
      | none =>
        simp only [hdd, List.isEmpty_cons, Bool.false_eq_true, if_false, run_pure, run_popData] at hex
        cases hex
      | some w =>
        simp only [hdd, List.isEmpty_cons, Bool.false_eq_true, if_false, run_pure, run_popData] at hex
        cases hex
        have hvw : vok s2.fns.length v = true := vok_of_cell (hw2.data_head hdd) hd.1
        refine ⟨hw2.setData rest s2.pc (hw2.data_tail hdd), he2.trans (TExt.same rfl rfl), hvw, hd.2, hf2.linear, hf2.addr, hf2.cur, ?_, hs2⟩
        show s2.pc = -1
        rw [hf2.pc, hb]; rfl

end ZygoVerif.RunInv
