/-
Proofs/RunCall.lean — **the calling contract**, by induction on the fuel over the VM's mutual
block (`run`, `runLoop`, `exec`, `evalCallExpr`, `nested`, `prepareArgs`, `callResolved`,
`callUser`, `builtin`, `applyFn`, `mapArr`, `mapList`, `forceLazy`).

From a state that satisfies the table invariant `WF` (every function object verified, every
stored value storable) whenever one of these functions returns normally:
* the tables have only grown and `WF` holds again;
* a nested evaluation (`evalCallExpr`, `builtin`, `applyFn`, `forceLazy`, …) leaves the data stack
  (as the checker sees it), the scope stack, the address stack, the current function, the pc
  and the set-aside stacks exactly as they were, and returns a storable value;
* `callUser` pops its operands and pushes exactly one value;
* one instruction of a `Running` loop leaves it `Running` (one activation more after a call of a
  compiled function, one less after `ret`) or `Finished`;
* a `runLoop` that was `Running` ends `Finished`: the bottom activation has returned ONE value on
  the data it was entered with, at the scope depth and the address stack it was entered with.
-/
import ZygoVerif.Proofs.RunStep
set_option linter.unusedSimpArgs false
set_option linter.unusedVariables false
namespace ZygoVerif.RunInv
open ZygoVerif.Core ZygoVerif.VM ZygoVerif.Bal ZygoVerif.Refine ZygoVerif.TailVM ZygoVerif.Sim ZygoVerif.Contain

/-- the stacks and the control registers are what they were -/
structure SameCtl (s s' : St) : Prop where
  data : s'.data.map cellOf = s.data.map cellOf
  linear : s'.linear = s.linear
  addr : s'.addr = s.addr
  cur : s'.curfunc = s.curfunc
  pc : s'.pc = s.pc
  susp : s'.suspended = s.suspended

theorem SameCtl.refl (s : St) : SameCtl s s := ⟨rfl, rfl, rfl, rfl, rfl, rfl⟩

theorem SameCtl.trans {a b c : St} (h1 : SameCtl a b) (h2 : SameCtl b c) : SameCtl a c :=
  ⟨h2.data.trans h1.data, h2.linear.trans h1.linear, h2.addr.trans h1.addr, h2.cur.trans h1.cur,
   h2.pc.trans h1.pc, h2.susp.trans h1.susp⟩

/-- what a nested evaluation guarantees -/
structure Kept (s s' : St) : Prop where
  wf : WF s'
  ext : TExt s s'
  same : SameCtl s s'

theorem Kept.refl {s : St} (h : WF s) : Kept s s := ⟨h, TExt.refl s, SameCtl.refl s⟩

theorem Kept.trans {a b c : St} (h1 : Kept a b) (h2 : Kept b c) : Kept a c :=
  ⟨h2.wf, h1.ext.trans h2.ext, h1.same.trans h2.same⟩

/-- the loop is `Running` or `Finished` -/
def Live (b : Base) (s : St) : Prop := (∃ top rest, Running b s top rest) ∨ Finished b s

/-- what one instruction makes of the stack of activations `top :: rest`: it stays, a callee is
pushed, the top activation returns to its caller, or the bottom activation returns to the base -/
def Next (b : Base) (s' : St) (top : Act) (rest : List Act) : Prop :=
  Running b s' top rest ∨ (∃ c, Running b s' c (top :: rest)) ∨ (∃ a r, rest = a :: r ∧ Running b s' a r) ∨ Finished b s'

theorem Next.live {b : Base} {s' : St} {top : Act} {rest : List Act} (h : Next b s' top rest) : Live b s' := by
  rcases h with h | ⟨c, h⟩ | ⟨a, r, _, h⟩ | h
  · exact Or.inl ⟨_, _, h⟩
  · exact Or.inl ⟨_, _, h⟩
  · exact Or.inl ⟨_, _, h⟩
  · exact Or.inr h

/-- the specifications of the functions of the mutual block, at one fuel -/
structure AllSpec (n : Nat) : Prop where
  exec : ∀ (b : Base) (s s' : St) (top : Act) (rest : List Act) (i : Instr), WF s → Running b s top rest →
    (fnOf s s.curfunc).code[s.pc.toNat]? = some i → (exec n i).run s = (.ok (), s') →
    WF s' ∧ TExt s s' ∧ Next b s' top rest ∧ s'.suspended = s.suspended
  resolved : ∀ (b : Base) (s s' : St) (top : Act) (rest : List Act) (f : Val) (c0 : Expr) (args : List Expr), WF s →
    Running b s top rest → (fnOf s s.curfunc).code[s.pc.toNat]? = some (.callExpr c0 args) →
    vok s.fns.length f = true → okLs args = true → (callResolved n f args).run s = (.ok (), s') →
    WF s' ∧ TExt s s' ∧ Next b s' top rest ∧ s'.suspended = s.suspended
  loop : ∀ (b : Base) (st : CtlState) (s s' : St), WF s → Live b s → b.pc = -2 → b.main = false →
    (runLoop n st).run s = (.ok (), s') → WF s' ∧ TExt s s' ∧ Finished b s' ∧ s'.suspended = s.suspended
  run : ∀ (b : Base) (s s' : St) (top : Act) (v : Val), WF s → Running b s top [] → b.pc = -2 → b.main = false →
    (run n).run s = (.ok v, s') →
    WF s' ∧ TExt s s' ∧ vok s'.fns.length v = true ∧ s'.data.map cellOf = b.data.map cellOf ∧ s'.linear = b.linear ∧
      s'.addr = b.addr ∧ s'.curfunc = b.cur ∧ s'.pc = -1 ∧ s'.suspended = s.suspended
  nested : ∀ (f : Nat) (st : CtlState) (s s' : St) (v : Val), WF s → 2 ≤ f → f < s.fns.length →
    (fnOf s f).params.length = 0 → s.pc = -2 → (nested n f st).run s = (.ok v, s') →
    ∃ s2, s' = restoreSt st s2 ∧ WF s2 ∧ TExt s s2 ∧ vok s2.fns.length v = true ∧
      s2.data.map cellOf = s.data.map cellOf ∧ s2.linear = s.linear ∧ s2.addr = s.addr ∧ s2.curfunc = s.curfunc ∧
      s2.suspended = s.suspended
  eval : ∀ (e : Expr) (s s' : St) (v : Val), WF s → okL e = true → (evalCallExpr n e).run s = (.ok v, s') →
    Kept s s' ∧ vok s'.fns.length v = true
  prep : ∀ (f : Option FnObj) (i : Nat) (args : List Expr) (s s' : St), WF s → okLs args = true →
    (prepareArgs n f i args).run s = (.ok (), s') →
    WF s' ∧ TExt s s' ∧ s'.data.map cellOf = List.replicate args.length .val ++ s.data.map cellOf ∧
      s'.linear = s.linear ∧ s'.addr = s.addr ∧ s'.curfunc = s.curfunc ∧ s'.pc = s.pc ∧ s'.suspended = s.suspended
  user : ∀ (name : String) (k : Nat) (s s' : St) (tail : List Cell), WF s →
    s.data.map cellOf = List.replicate k .val ++ tail → (callUser n name k).run s = (.ok (), s') →
    WF s' ∧ TExt s s' ∧ s'.data.map cellOf = .val :: tail ∧ s'.linear = s.linear ∧ s'.addr = s.addr ∧
      s'.curfunc = s.curfunc ∧ s'.pc = s.pc + 1 ∧ s'.suspended = s.suspended
  builtin : ∀ (name : String) (args : List Val) (s s' : St) (v : Val), WF s → s.pc = -1 → (∀ a ∈ args, vok s.fns.length a = true) →
    (builtin n name args).run s = (.ok v, s') → Kept s s' ∧ vok s'.fns.length v = true
  apply : ∀ (f : Val) (args : List Val) (s s' : St) (v : Val), WF s → s.pc = -1 → vok s.fns.length f = true →
    (∀ a ∈ args, vok s.fns.length a = true) →
    (applyFn n f args).run s = (.ok v, s') → Kept s s' ∧ vok s'.fns.length v = true
  mapArr : ∀ (f : Val) (r i k : Nat) (s s' : St) (vs : List Val), WF s → s.pc = -1 → vok s.fns.length f = true →
    (mapArr n f r i k).run s = (.ok vs, s') → Kept s s' ∧ ∀ v ∈ vs, vok s'.fns.length v = true
  mapList : ∀ (f l : Val) (s s' : St) (v : Val), WF s → s.pc = -1 → vok s.fns.length f = true → vok s.fns.length l = true →
    (mapList n f l).run s = (.ok v, s') → Kept s s' ∧ vok s'.fns.length v = true
  force : ∀ (id : Nat) (s s' : St) (v : Val), WF s → (forceLazy n id).run s = (.ok v, s') →
    Kept s s' ∧ vok s'.fns.length v = true

/-! ## `runLoop` and `run` -/

theorem runLoop_finished (n : Nat) (st : CtlState) (s : St) (h : s.pc = -1) :
    (runLoop (n + 1) st).run s = (.ok (), s) := by
  rw [runLoop]
  simp only [run_bind, run_get, run_ite, h, true_or, if_true, run_pure]

theorem loop_succ (n : Nat) (ih : AllSpec n) (b : Base) (st : CtlState) (s s' : St) (hw : WF s) (hl : Live b s)
    (hb : b.pc = -2) (hm : b.main = false) (hex : (runLoop (n + 1) st).run s = (.ok (), s')) :
    WF s' ∧ TExt s s' ∧ Finished b s' ∧ s'.suspended = s.suspended := by
  rcases hl with ⟨top, rest, hr⟩ | hf
  · obtain ⟨hns, i, hi⟩ := hr.fetch (hr.A_pos hm)
    rw [runLoop] at hex
    simp only [run_bind, run_get, run_ite, hns, if_false, hi] at hex
    rcases hx : (exec n i).run s with ⟨r, s1⟩
    simp only [hx, run_set] at hex
    cases r with
    | error e => cases e <;> simp only [run_bind, run_restore, run_modify, run_throw] at hex <;> cases hex
    | ok u =>
      obtain ⟨hw1, he1, hl1, hs1⟩ := ih.exec b s s1 top rest i hw hr hi hx
      obtain ⟨hw2, he2, hf2, hs2⟩ := ih.loop b st s1 s' hw1 hl1.live hb hm hex
      exact ⟨hw2, he1.trans he2, hf2, hs2.trans hs1⟩
  · have hpc : s.pc = -1 := by rw [hf.pc, hb]; rfl
    rw [runLoop_finished n st s hpc] at hex
    cases hex
    exact ⟨hw, TExt.refl s, hf, rfl⟩

theorem run_succ (n : Nat) (ih : AllSpec n) (b : Base) (s s' : St) (top : Act) (v : Val) (hw : WF s)
    (hr : Running b s top []) (hb : b.pc = -2) (hm : b.main = false) (hex : (run (n + 1)).run s = (.ok v, s')) :
    WF s' ∧ TExt s s' ∧ vok s'.fns.length v = true ∧ s'.data.map cellOf = b.data.map cellOf ∧ s'.linear = b.linear ∧
      s'.addr = b.addr ∧ s'.curfunc = b.cur ∧ s'.pc = -1 ∧ s'.suspended = s.suspended := by
  rw [run_succ_eq] at hex
  simp only [run_bind, run_capture] at hex
  rcases hl : (runLoop n (captureOf s)).run s with ⟨r, s2⟩
  rw [hl] at hex
  cases r with
  | error e => cases hex
  | ok u =>
    obtain ⟨hw2, he2, hf2, hs2⟩ := ih.loop b _ s s2 hw (Or.inl ⟨top, [], hr⟩) hb hm hl
    simp only at hex
    unfold runTail at hex
    simp only [run_bind, run_get] at hex
    have hd := hf2.data
    rcases hdd : s2.data with _ | ⟨c, rest⟩
    · rw [hdd] at hd; cases hd
    · rw [hdd] at hd
      simp only [List.map_cons, List.cons.injEq] at hd
      cases c with
      | none =>
        simp only [hdd, List.isEmpty_cons, Bool.false_eq_true, if_false, run_pure, run_popData] at hex
        cases hex
      | some w =>
        simp only [hdd, List.isEmpty_cons, Bool.false_eq_true, if_false, run_pure, run_popData] at hex
        cases hex
        have hvw : vok s2.fns.length v = true := vok_of_cell (hw2.data_head hdd) hd.1
        refine ⟨hw2.setData rest s2.pc (hw2.data_tail hdd), he2.trans (TExt.same rfl rfl), hvw, hd.2, hf2.linear, hf2.addr, hf2.cur, ?_, hs2⟩
        show s2.pc = -1
        rw [hf2.pc, hb]; rfl

/-! ## Entering and leaving an activation -/

theorem absC_eq (s' : St) (c : CState) (h1 : s'.pc.toNat = c.pc) (h2 : s'.data.map cellOf = c.data)
    (h3 : s'.linear.length = c.sc) (h4 : s'.addr.length = c.addr) : absC s' = c := by
  cases c
  simp only [absC] at *
  simp [h1, h2, h3, h4]

/-- a verified function object as an activation -/
theorem actOK_of_good {s : St} {id : Nat} (hg : FnGood s id) (hid : id < s.fns.length) :
    ∃ ann, Verified (fnB s id) ann ∧ ∀ D S A, ActOK s ⟨id, ann, D, S, A⟩ := by
  obtain ⟨ann, hv⟩ := hg.verified
  have hV := verified_of_verify _ _ hv
  refine ⟨ann, hV, fun D S A => ⟨hV.toStep, fun _ => hV.entry, ?_, fun _ => ?_, hg.user, hid, hg.code⟩⟩
  · simp only [verify, Bool.and_eq_true, beq_iff_eq] at hv
    exact hv.1.1.1
  · have hfin := hV.fin
    unfold endOk at hfin
    split at hfin
    · assumption
    · rename_i a ha
      simp only [fnB] at hfin
      cases hfin

/-- the loop stays `Running` across a nested evaluation -/
theorem Running.kept {b : Base} {s s' : St} {top : Act} {rest : List Act} (h : Running b s top rest) (hk : Kept s s') :
    Running b s' top rest := by
  have habs : absC s' = absC s := by
    apply absC_eq
    · show s'.pc.toNat = s.pc.toNat; rw [hk.same.pc]
    · exact hk.same.data
    · show s'.linear.length = s.linear.length; rw [hk.same.linear]
    · show s'.addr.length = s.addr.length; rw [hk.same.addr]
  exact ⟨hk.same.cur.trans h.cur, by rw [hk.same.pc]; exact h.pc, by rw [habs]; exact h.inv, h.ok.ext hk.ext,
    by rw [hk.same.addr]; exact Chain.ext hk.ext _ _ _ _ h.chain, by rw [hk.same.linear]; exact h.lin⟩

theorem WF.ctl {s : St} (h : WF s) (a : List (Option (Nat × Int))) (cur : Nat) (pc : Int) :
    WF { s with addr := a, curfunc := cur, pc := pc } :=
  h.mk' (TExt.same rfl rfl) (fun id h1 h2 => absurd h2 (Nat.not_lt.mpr h1)) h.loopstack h.scopes h.heap h.lazies h.data

/-- `ret` -/
theorem exec_ret_ok (n : Nat) (b : Base) (s s' : St) (top : Act) (rest : List Act) (hw : WF s) (hr : Running b s top rest)
    (hf : (fnOf s s.curfunc).code[s.pc.toNat]? = some .ret) (hex : (exec (n + 1) .ret).run s = (.ok (), s')) :
    WF s' ∧ TExt s s' ∧ Next b s' top rest ∧ s'.suspended = s.suspended := by
  have hret : AtRet (fnB s top.f) (absC s) := hr.fetchB hf
  obtain ⟨hd, hsc, ha⟩ := inv_at_ret_s _ _ hr.ok.step _ _ _ _ hr.inv hret
  simp only [exec] at hex
  simp only [run_bind, run_get] at hex
  cases rest with
  | nil =>
    obtain ⟨h1, h2, h3⟩ := hr.chain
    cases hmain : b.main with
    | true =>
      -- the top-level text: no return address, `ret` is a run-time error
      exfalso
      rw [hmain] at h3
      simp only [if_true] at h3
      rw [h3] at hex
      simp only [err, run_err] at hex
      cases hex
    | false =>
    rw [hmain] at h3
    simp only [Bool.false_eq_true, if_false] at h3
    rw [h3] at hex
    simp only [run_set] at hex
    cases hex
    refine ⟨hw.ctl _ _ _, TExt.same rfl rfl, Or.inr (Or.inr (Or.inr ⟨rfl, rfl, ?_, ?_, rfl, hmain⟩)), rfl⟩
    · show s.data.map cellOf = _
      have : (absC s).data = s.data.map cellOf := rfl
      rw [← this, hd, h1]
    · show s.linear = b.linear
      apply eq_of_suffix_length hr.lin
      have : (absC s).sc = s.linear.length := rfl
      rw [← this, hsc, h2]
  | cons a rest' =>
    obtain ⟨r, tail, h1, h2, h3, h4, h5, _, h6⟩ := hr.chain
    rw [h1] at hex
    simp only [run_set] at hex
    cases hex
    have he : TExt s { s with addr := tail, curfunc := a.f, pc := r } := TExt.same rfl rfl
    have hc6 : Chain b { s with addr := tail, curfunc := a.f, pc := r } rest' a.D a.S tail :=
      Chain.ext he _ _ _ _ h6
    have ha5 : ActOK { s with addr := tail, curfunc := a.f, pc := r } a := h5.ext he
    refine ⟨hw.ctl _ _ _, TExt.same rfl rfl, Or.inr (Or.inr (Or.inl ⟨a, rest', rfl, ⟨rfl, h2, ?_, ha5, hc6, hr.lin⟩⟩)), rfl⟩
    have : absC { s with addr := tail, curfunc := a.f, pc := r } = ⟨r.toNat, .val :: top.D, top.S, a.A⟩ := by
      apply absC_eq
      · rfl
      · exact hd
      · exact hsc
      · exact h4.symm
    rw [this]; exact h3

/-- `CallFunction`: the operands (the variadic tail packed) stay, the return address is pushed,
the callee is entered at instruction 0 -/
theorem callFunction_ok (fid k : Nat) (s s' : St) (tail : List Cell) (hw : WF s) (hg : FnGood s fid)
    (hd : s.data.map cellOf = List.replicate k .val ++ tail) (h : (callFunction fid k).run s = (.ok (), s')) :
    s'.curfunc = fid ∧ s'.pc = 0 ∧ s'.addr = some (s.curfunc, s.pc + 1) :: s.addr ∧ s'.linear = s.linear ∧
      s'.suspended = s.suspended ∧ s'.fns = s.fns ∧ s'.loops = s.loops ∧ WF s' ∧
      s'.data.map cellOf = List.replicate (fnOf s fid).params.length .val ++ tail := by
  unfold callFunction at h
  have hsig := hg.sig
  by_cases h0 : s.data.length < k
  · vmsimp_at h [h0]; cases h
  · by_cases h00 : (s.data.take k).any Option.isNone = true
    · vmsimp_at h [h0, h00]; cases h
    · cases hv : (fnOf s fid).varargs with
      | false =>
        rw [hv] at hsig
        by_cases hk : k ≠ (fnOf s fid).nargs
        · vmsimp_at h [h0, h00, hv, hk]; cases h
        · vmsimp_at h [h0, h00, hv, hk]
          cases h
          have hk' : k = (fnOf s fid).nargs := by omega
          refine ⟨rfl, rfl, rfl, rfl, rfl, rfl, rfl, hw.ctl _ _ _, ?_⟩
          show s.data.map cellOf = _
          rw [hd, hsig, hk']; simp
      | true =>
        rw [hv] at hsig
        by_cases h1 : k < (fnOf s fid).nargs
        · vmsimp_at h [h0, h00, hv, wrangleOptargs, h1]; cases h
        · by_cases h2 : (fnOf s fid).nargs < k
          · have h3 : ¬ s.data.length < k - (fnOf s fid).nargs := by omega
            cases hm : (s.data.take (k - (fnOf s fid).nargs)).mapM id with
            | none => vmsimp_at h [h0, h00, hv, wrangleOptargs, popN, h1, h2, h3, hm]; cases h
            | some vs =>
              vmsimp_at h [h0, h00, hv, wrangleOptargs, popN, h1, h2, h3, hm]
              cases h
              have htake : (s.data.take (k - (fnOf s fid).nargs)).map cellOf = List.replicate (k - (fnOf s fid).nargs) Cell.val := by
                rw [List.map_take, hd, List.take_append_of_le_length (by simp), List.take_replicate]
                congr 1; omega
              have hvs : ∀ v ∈ vs, vok s.fns.length v = true := by
                apply vals_vok _ vs hm (fun c hcm => hw.data c (List.mem_of_mem_take hcm))
                intro c hcm
                rw [htake] at hcm
                exact List.eq_of_mem_replicate hcm
              refine ⟨rfl, rfl, rfl, rfl, rfl, rfl, rfl, ?_, ?_⟩
              · refine hw.mk' (TExt.same rfl rfl) (fun j h1 h2 => absurd h2 (Nat.not_lt.mpr h1)) hw.loopstack hw.scopes
                  hw.heap hw.lazies ?_
                intro c hcm
                rcases List.mem_cons.mp hcm with rfl | hcm
                · exact cellOK_of_vok (vok_mkList _ (fun v hv' => hvs v (List.mem_reverse.mp hv')))
                · exact hw.data c (List.mem_of_mem_drop hcm)
              · show cellOf (some (mkList vs.reverse)) :: (s.data.drop (k - (fnOf s fid).nargs)).map cellOf = _
                rw [cellOf_plain (plain_mkList _), List.map_drop, hd, hsig]
                have : k = (k - (fnOf s fid).nargs) + (fnOf s fid).nargs := by omega
                rw [List.drop_append_of_le_length (by simp), List.drop_replicate]
                have hk' : k - (k - (fnOf s fid).nargs) = (fnOf s fid).nargs := by omega
                rw [hk', if_pos rfl, List.replicate_succ, List.cons_append]
          · have heq : k = (fnOf s fid).nargs := by omega
            vmsimp_at h [h0, h00, hv, wrangleOptargs, h1, h2]
            cases h
            refine ⟨rfl, rfl, rfl, rfl, rfl, rfl, rfl, ?_, ?_⟩
            · refine hw.mk' (TExt.same rfl rfl) (fun j h1 h2 => absurd h2 (Nat.not_lt.mpr h1)) hw.loopstack hw.scopes
                hw.heap hw.lazies ?_
              intro c hcm
              rcases List.mem_cons.mp hcm with rfl | hcm
              · exact cellOK_of_vok rfl
              · exact hw.data c hcm
            · show Cell.val :: s.data.map cellOf = _
              rw [hd, hsig, heq, if_pos rfl, List.replicate_succ, List.cons_append]

/-! ## Calls -/

/-- a call seen from the caller: `p` operands popped, one value pushed, everything else as before -/
theorem call_step {b : Base} {s s' : St} {top : Act} {rest : List Act} {i : Instr} {p : Nat} {tail : List Cell}
    (hr : Running b s top rest) (hf : (fnOf s s.curfunc).code[s.pc.toNat]? = some i)
    (he : eff (toB s.loops i) = .simple p 1) (hd : s.data.map cellOf = List.replicate p .val ++ tail)
    (hw' : WF s') (hext : TExt s s') (hd' : s'.data.map cellOf = .val :: tail) (hl : s'.linear = s.linear)
    (ha : s'.addr = s.addr) (hc : s'.curfunc = s.curfunc) (hp : s'.pc = s.pc + 1) (hs : s'.suspended = s.suspended) :
    WF s' ∧ TExt s s' ∧ Next b s' top rest ∧ s'.suspended = s.suspended := by
  have hstep : CStep (fnB s s.curfunc) (absC s) (absC s') := by
    have := CStep.simple (f := fnB s s.curfunc) (absC s) _ p 1 (List.replicate p .val) tail (Refine.fetchB hf) he hd (by simp)
    have heq : absC s' = { absC s with pc := (absC s).pc + 1, data := List.replicate 1 .val ++ tail } := by
      apply absC_eq
      · show s'.pc.toNat = s.pc.toNat + 1
        rw [hp]; have := hr.pc; omega
      · exact hd'
      · show s'.linear.length = s.linear.length; rw [hl]
      · show s'.addr.length = s.addr.length; rw [ha]
    rw [heq]; exact this
  have r := finish_step hr hw' hext hstep hc ha (by rw [hp]; have := hr.pc; omega) (Or.inl hl) hs
  exact ⟨r.wf, r.ext, Or.inl r.run, r.susp⟩

theorem exec_callArr_ok (n : Nat) (ih : AllSpec n) (b : Base) (s s' : St) (top : Act) (rest : List Act) (k : Nat)
    (hw : WF s) (hr : Running b s top rest) (hf : (fnOf s s.curfunc).code[s.pc.toNat]? = some (.callArr k))
    (hex : (exec (n + 1) (.callArr k)).run s = (.ok (), s')) :
    WF s' ∧ TExt s s' ∧ Next b s' top rest ∧ s'.suspended = s.suspended := by
  obtain ⟨tail, htv⟩ := hr.top_vals hf (p := k) (m := 1) rfl
  simp only [exec] at hex
  obtain ⟨hw', he, hd, hl, ha, hc, hp, hs⟩ := ih.user "array" k s s' tail hw htv hex
  exact call_step hr hf rfl htv hw' he hd hl ha hc hp hs

/-- the guard of `CallResolved` hands the result of its body through -/
theorem guarded_ok (start : Nat) (m : M Unit) (s s' : St)
    (h : (do
      let s ← get
      let r : Except Fault Unit × St := m.run s
      set r.2
      match r.1 with
      | .ok _ => pure ()
      | .error .err => do modify (fun s => { s with data := truncate s.data start }); throw .err
      | .error flt => throw flt : M Unit).run s = (.ok (), s')) : m.run s = (.ok (), s') := by
  simp only [run_bind, run_get, run_set] at h
  rcases hm : m.run s with ⟨r, s1⟩
  rw [hm] at h
  cases r with
  | ok u => simp only [run_pure] at h; cases h; rfl
  | error e => cases e <;> simp only [run_bind, run_modify, run_throw] at h <;> cases h

theorem resolved_succ (n : Nat) (ih : AllSpec n) (b : Base) (s s' : St) (top : Act) (rest : List Act) (f : Val) (c0 : Expr)
    (args : List Expr) (hw : WF s) (hr : Running b s top rest)
    (hf : (fnOf s s.curfunc).code[s.pc.toNat]? = some (.callExpr c0 args))
    (hvf : vok s.fns.length f = true) (hoa : okLs args = true)
    (hex : (callResolved (n + 1) f args).run s = (.ok (), s')) :
    WF s' ∧ TExt s s' ∧ Next b s' top rest ∧ s'.suspended = s.suspended := by
  unfold VM.callResolved at hex
  rw [run_bind, run_get] at hex
  dsimp only at hex
  have heff : eff (toB s.loops (.callExpr c0 args)) = .simple 0 1 := rfl
  split at hex
  · -- a compiled function
    rename_i fid
    have hex' := guarded_ok _ _ s s' hex
    rw [run_bind] at hex'
    rcases hp : (prepareArgs n (some (fnOf s fid)) 0 args).run s with ⟨r, s1⟩
    rw [hp] at hex'
    cases r with
    | error e => cases hex'
    | ok u =>
      simp only at hex'
      obtain ⟨hw1, he1, hd1, hl1, ha1, hc1, hp1, hs1⟩ := ih.prep _ _ _ s s1 hw hoa hp
      simp only [vok, decide_eq_true_eq] at hvf
      have hid1 : fid < s1.fns.length := Nat.lt_of_lt_of_le hvf.2 he1.fns_len
      have hg1 := hw1.fns fid hvf.1 hid1
      obtain ⟨h1, h2, h3, h4, h5, h6, h7, hw2, h9⟩ := callFunction_ok fid args.length s1 s' (s.data.map cellOf) hw1 hg1 hd1 hex'
      have he2 : TExt s s' := he1.trans (TExt.same h6 h7)
      have hid2 : fid < s'.fns.length := by rw [h6]; exact hid1
      have hg2 := hw2.fns fid hvf.1 hid2
      obtain ⟨ann, hV, hact⟩ := actOK_of_good hg2 hid2
      refine ⟨hw2, he2, Or.inr (Or.inl ⟨⟨fid, ann, s.data.map cellOf, s.linear.length, s.addr.length + 1⟩, ?_⟩), by rw [h5, hs1]⟩
      have hfo : fnOf s' fid = fnOf s1 fid := by simp only [VM.fnOf, h6]
      refine ⟨h1, by rw [h2]; exact Int.le_refl 0, ?_, hact _ _ _, ?_, by rw [h4, hl1]; exact hr.lin⟩
      · apply inv_entry _ _ hV
        · show s'.pc.toNat = 0; rw [h2]; rfl
        · show s'.data.map cellOf = _
          rw [h9]
          show _ = List.replicate (fnOf s' fid).params.length Cell.val ++ _
          rw [hfo]
        · show s'.linear.length = _; rw [h4, hl1]
        · show s'.addr.length = _; rw [h3, ha1]; simp
      · -- the caller, suspended
        show Chain b s' (top :: rest) (s.data.map cellOf) s.linear.length s'.addr
        refine ⟨s.pc + 1, s.addr, by rw [h3, hc1, hp1, ha1, hr.cur], by have := hr.pc; omega, ?_, ?_, hr.ok.ext he2, ?_,
          Chain.ext he2 _ _ _ _ hr.chain⟩
        rotate_left 2
        · obtain ⟨_, own, _, hdd, _, _, _⟩ := hr.inv
          have : (absC s).data = s.data.map cellOf := rfl
          rw [this] at hdd
          rw [hdd]; simp
        · have hstep := CStep.simple (f := fnB s top.f) (absC s) _ 0 1 [] (s.data.map cellOf) (hr.fetchB hf) heff rfl rfl
          have := inv_step_s _ _ hr.ok.step _ _ _ _ _ hr.inv hstep
          have hA : top.A = s.addr.length := by
            obtain ⟨_, _, _, _, _, _, haA⟩ := hr.inv
            exact haA.symm
          have hpc : (s.pc + 1).toNat = s.pc.toNat + 1 := by have := hr.pc; omega
          simpa [absC, hA, hpc] using this
        · obtain ⟨_, _, _, _, _, _, haA⟩ := hr.inv
          exact haA.symm
  · -- a Go builtin
    rename_i name
    have hex' := guarded_ok _ _ s s' hex
    rw [run_bind] at hex'
    rcases hp : (prepareArgs n none 0 args).run s with ⟨r, s1⟩
    rw [hp] at hex'
    cases r with
    | error e => cases hex'
    | ok u =>
      simp only at hex'
      obtain ⟨hw1, he1, hd1, hl1, ha1, hc1, hp1, hs1⟩ := ih.prep _ _ _ s s1 hw hoa hp
      obtain ⟨hw2, he2, hd2, hl2, ha2, hc2, hp2, hs2⟩ := ih.user name args.length s1 s' (s.data.map cellOf) hw1 hd1 hex'
      exact call_step hr hf heff (p := 0) (tail := s.data.map cellOf) rfl hw2 (he1.trans he2) hd2 (hl2.trans hl1) (ha2.trans ha1)
        (hc2.trans hc1) (by rw [hp2, hp1]) (hs2.trans hs1)
  · -- a type constructor: not in the core language
    have hex' := guarded_ok _ _ s s' hex
    rw [run_bind] at hex'
    rcases hp : (prepareArgs n none 0 args).run s with ⟨r, s1⟩
    rw [hp] at hex'
    cases r with
    | error e => cases hex'
    | ok u => simp only [run_err] at hex'; cases hex'
  · -- any other value: only without operands
    split at hex
    · simp only [run_bind, run_pushData, run_incPc] at hex
      cases hex
      refine call_step hr hf heff (p := 0) (tail := s.data.map cellOf) rfl ?_ (TExt.same rfl rfl) ?_ rfl rfl rfl rfl rfl
      · refine hw.setData _ _ ?_
        intro c hcm
        rcases List.mem_cons.mp hcm with rfl | hcm
        · exact cellOK_of_vok hvf
        · exact hw.data c hcm
      · show cellOf (some f) :: s.data.map cellOf = _
        rw [cellOf_plain (vok_plain hvf)]
    · simp only [run_err] at hex; cases hex

end ZygoVerif.RunInv
