/-
Proofs/GenBalancedLoopGen.lean — the induction over the expression grammar for the WHOLE core
language of Model/Gen.lean: loops (`for`, labelled or not), `break`/`continue` in every
position, function templates (`fn`/`defn` bodies as whole functions, nested to any depth) and
self tail calls. One mutual induction over the eight `compile*` functions proves, for the code
a form compiles to: the generator state only grows (`Ext`), loop ids are fresh (`idsIn`), every
template allocated on the way is a verified function (`FnsOK`), and the code is a fragment from
`σ` to `σ + 1 value` in every context that satisfies the invariant `GInv`.
-/
import ZygoVerif.Proofs.GenBalancedInv
set_option linter.unusedSimpArgs false
set_option linter.unusedVariables false
namespace ZygoVerif.Bal
open ZygoVerif.VM ZygoVerif.Core

/-! ## The covered grammar -/

mutual
/-- Every core form. Side conditions: the body of `let`/`letseq`/`fn`/`defn` is not empty (what
the elaborator guarantees), the head and the operands of every call are in the grammar (they are
compiled at run time by `EvalCallExpression`), and no call has the empty name or a generated name
`__anon<n>` as its head (such a call inside the anonymous function of that name would be compiled as a self
tail call without an arity check: C09-02). -/
def okL : Expr → Bool
  | .int _ => true
  | .bool _ => true
  | .str _ => true
  | .nilLit => true
  | .sym _ => true
  | .arr es => okLs es
  | .call (.sym h) args => !anonLike h && okLs args
  | .call f args => okL f && okLs args
  | .begin_ es => okLs es
  | .def_ _ e => okL e
  | .set_ _ e => okL e
  | .cond arms d => okLArms arms && okL d
  | .and_ es => okLs es
  | .or_ es => okLs es
  | .let_ _ bs body => okLBinds bs && !body.isEmpty && okLs body
  | .newScope es => okLs es
  | .for_ _ i t s body => okL i && okL t && okL s && okLs body
  | .break_ _ => true
  | .continue_ _ => true
  | .fn _ _ body => !body.isEmpty && okLs body
  | .defn _ _ _ body => !body.isEmpty && okLs body
  | .assign l r => okL l && okL r
  | .bad _ => true
def okLs : List Expr → Bool
  | [] => true
  | e :: es => okL e && okLs es
def okLArms : List (Expr × Expr) → Bool
  | [] => true
  | (p, b) :: r => okL p && okL b && okLArms r
def okLBinds : List (String × Expr) → Bool
  | [] => true
  | (_, e) :: r => okL e && okLBinds r
end

/-! ## Shapes of the conclusions -/

/-- the code is a fragment that adds one value, in every context that satisfies the invariant -/
def FragE (c : Ctx) (gs : GS) (T : List LoopRec) (code : List Instr) : Prop :=
  ∀ d Γ σ, GInv d c gs Γ T σ → ExprFrag Γ (B T code) σ (bump σ 1)

def FragS (c : Ctx) (gs : GS) (T : List LoopRec) (code : List Instr) (n : Nat) : Prop :=
  ∀ d Γ σ, GInv d c gs Γ T σ → SeqFrag Γ (B T code) σ (bump σ n)

structure Res (gs gs' : GS) (P : List LoopRec → Prop) : Prop where
  ext : Ext gs gs'
  sem : ∀ T, TOk gs gs' T → FnsOK gs gs' T ∧ P T

theorem Res.pure {gs : GS} {P : List LoopRec → Prop} (h : ∀ T, P T) : Res gs gs P :=
  ⟨Ext.refl gs, fun T _ => ⟨FnsOK.refl gs T, h T⟩⟩

theorem Res.seq {gs gs1 gs2 : GS} {P1 P2 : List LoopRec → Prop} (r1 : Res gs gs1 P1) (r2 : Res gs1 gs2 P2) :
    Res gs gs2 (fun T => P1 T ∧ P2 T) :=
  ⟨r1.ext.trans r2.ext, fun T hT =>
    ⟨(r1.sem T (hT.left r1.ext r2.ext)).1.trans (r2.sem T (hT.right r1.ext r2.ext)).1 r2.ext,
     (r1.sem T (hT.left r1.ext r2.ext)).2, (r2.sem T (hT.right r1.ext r2.ext)).2⟩⟩

theorem Res.mono {gs gs' : GS} {P Q : List LoopRec → Prop} (r : Res gs gs' P) (h : ∀ T, TOk gs gs' T → P T → Q T) :
    Res gs gs' Q :=
  ⟨r.ext, fun T hT => ⟨(r.sem T hT).1, h T hT (r.sem T hT).2⟩⟩

/-! ## Small pieces -/

theorem efrag_removeScopes (Γ : Env) (σ : AState) (hσ : σ.wf = true) :
    ∀ m, SeqFrag Γ (List.replicate m BInstr.removeScope) (deeper σ m) σ
  | 0 => by
    have : deeper σ 0 = σ := rfl
    rw [this]; exact sfrag_nil Γ σ
  | m + 1 => by
    have ih := efrag_removeScopes Γ σ hσ m
    have one := efrag_scopeDown Γ (deeper σ m) (by rw [wf_deeper]; exact hσ)
    have hd : deeper (deeper σ m) 1 = deeper σ (m + 1) := rfl
    rw [hd] at one
    have := sfrag_of_e (efrag_seq_s one ih)
    simpa [List.replicate_succ] using this

/-- the self tail-call sequence behind the operands: `prepareCall; removeScope × (scopes+1); goto 0`;
nothing falls through, `τ` (the annotation behind the jump) is arbitrary -/
theorem efrag_tailcall (Γ : Env) (T : List LoopRec) (h : String) (n scopes : Nat) (σ : AState) (fo : FnObj)
    (hσ : σ.wf = true) (hfr : σ.frames = []) (hb : σ.base = 0) (hk : σ.k = scopes + 1)
    (hside : ∀ F A, Γ.side F A →
      annAt A 0 = some ⟨0, [], fo.nargs + (if fo.varargs then 1 else 0)⟩ ∧ F.varargs = fo.varargs ∧ F.nfixed = fo.nargs)
    (har : if fo.varargs then fo.nargs ≤ n else n = fo.nargs) (τ : AState) (hτ : τ.wf = true) :
    ExprFrag Γ (B T ([.prepareCall h n] ++ List.replicate (scopes + 1) .removeScope ++ [.goto 0])) (bump σ n) τ := by
  obtain ⟨k, frames, base⟩ := σ
  simp only at hfr hb hk
  subst hfr hb hk
  have hw : ∀ a b : Nat, (⟨a, [], b⟩ : AState).wf = true := fun a b => by simp [AState.wf, openMarks]
  -- prepareCall
  have p1 : ExprFrag Γ [BInstr.prepareCall n] ⟨scopes + 1, [], n⟩ ⟨scopes + 1, [], fo.nargs + (if fo.varargs then 1 else 0)⟩ := by
    apply efrag_instr Γ _ _ _ (hw _ _) (hw _ _)
    intro F A L hp henv
    obtain ⟨_, hva, hnf⟩ := hside F A henv.1
    have ha1 := hp.2 1 (by simp)
    simp at ha1
    refine ⟨[(L + 1, ⟨scopes + 1, [], fo.nargs + (if fo.varargs then 1 else 0)⟩)], ?_, ?_⟩
    · cases hv : fo.varargs with
      | true =>
        rw [hv] at har hva
        simp only [if_true] at har
        have hle : n - fo.nargs ≤ n := Nat.sub_le _ _
        simp only [astep, eff, hva, hnf, if_true, har, popPush, hle]
        congr 5
        omega
      | false =>
        rw [hv] at har hva
        simp only [Bool.false_eq_true, if_false] at har
        simp [astep, eff, hva, har]
    · intro q hq
      simp only [List.mem_cons, List.mem_nil_iff, or_false] at hq
      subst hq
      exact ⟨_, ha1, le_refl _⟩
  -- removeScope × (scopes + 1)
  have p2 := efrag_removeScopes Γ ⟨0, [], fo.nargs + (if fo.varargs then 1 else 0)⟩ (hw _ _) (scopes + 1)
  have hd : deeper (⟨0, [], fo.nargs + (if fo.varargs then 1 else 0)⟩ : AState) (scopes + 1)
      = ⟨scopes + 1, [], fo.nargs + (if fo.varargs then 1 else 0)⟩ := by simp [deeper]
  rw [hd] at p2
  -- goto 0
  have p3 : ExprFrag Γ [BInstr.goto 0] ⟨0, [], fo.nargs + (if fo.varargs then 1 else 0)⟩ τ := by
    apply efrag_instr Γ _ _ _ (hw _ _) hτ
    intro F A L hp henv
    obtain ⟨h0, _, _⟩ := hside F A henv.1
    refine ⟨[(0, ⟨0, [], fo.nargs + (if fo.varargs then 1 else 0)⟩)], ?_, ?_⟩
    · simp [astep, eff, absTarget]
    · intro q hq
      simp only [List.mem_cons, List.mem_nil_iff, or_false] at hq
      subst hq
      exact ⟨_, h0, le_refl _⟩
  have := efrag_seq (efrag_seq_s p1 p2) p3
  simpa [B, toB, bump, List.map_replicate] using this

theorem findLoop_mem {gs : GS} {l : Option String} {id : Nat} (h : findLoop gs l = some id) : id ∈ gs.loopstack := by
  cases l with
  | none =>
    simp only [findLoop] at h
    exact List.mem_of_mem_head? h
  | some x =>
    simp only [findLoop] at h
    exact List.mem_of_find?_eq_some h

/-- `break` / `continue` -/
theorem frag_exitLoop (c : Ctx) (gs : GS) (T : List LoopRec) (id : Nat) (isBrk : Bool) (hmem : id ∈ gs.loopstack) :
    FragE c gs T [if isBrk then Instr.brk id (c.scopes - ((gs.loops.getD id {}).scopeDepth + 1))
                  else Instr.cont id (c.scopes - ((gs.loops.getD id {}).scopeDepth + 1))] := by
  intro d Γ σ hinv
  have hτ : (bump σ 1).wf = true := by rw [wf_bump]; exact hinv.wf
  have hk := hinv.k
  cases isBrk with
  | true =>
    simp only [if_true, B, List.map_cons, List.map_nil, toB]
    apply efrag_exit Γ _ id (T.getD id {}).breakOff _ σ (bump σ 1) rfl hinv.wf hτ
    rcases hinv.loops id hmem with ⟨info, hm, h1, h2, h3, h4, h5, h6, h7⟩ | hf
    · right
      exact ⟨info, hm, h1, Or.inl h2.symm, h4, h5, by omega, by omega⟩
    · left; exact hf
  | false =>
    simp only [Bool.false_eq_true, if_false, B, List.map_cons, List.map_nil, toB]
    apply efrag_exit Γ _ id (T.getD id {}).contOff _ σ (bump σ 1) rfl hinv.wf hτ
    rcases hinv.loops id hmem with ⟨info, hm, h1, h2, h3, h4, h5, h6, h7⟩ | hf
    · right
      exact ⟨info, hm, h1, Or.inr h3.symm, h4, h5, by omega, by omega⟩
    · left; exact hf

/-! ## The loop -/

def forShape (loop : Nat) (ini tst inc bod : List BInstr) (jf br jb : Int) : List BInstr :=
  [.loopStart loop, .addScope, .pushMark loop, .label] ++ (ini ++ ([.jump jf] ++ (([.label] ++ inc) ++
        (([.label] ++ tst) ++ ([.branch false br] ++ (([.label] ++ bod) ++ ([.jump jb] ++ ([.label] ++
          [.clearMark loop, .removeScope, .push]))))))))

theorem forCode_B (T : List LoopRec) (loop : Nat) (i t s b : List Instr) : ∃ jf br jb : Int,
    B T (forCode loop i t s b) = forShape loop (B T i ++ [.popUntilMark loop]) (B T t) (B T s ++ [.popUntilMark loop])
      (B T b ++ [.popUntilMark loop]) jf br jb ∧
    jf = ((s.length + 1 + 2 : Nat) : Int) ∧ br = ((b.length + 1 + 3 : Nat) : Int) ∧
    jb = ((4 + (i.length + 1) + 1 : Nat) : Int) -
      ((4 + (i.length + 1) + 1 + (1 + (s.length + 1)) + (1 + t.length) + 1 + (1 + (b.length + 1)) : Nat) : Int) := by
  refine ⟨?jf, ?br, ?jb, ?eq, ?a, ?b, ?c⟩
  case eq =>
    simp only [forShape, forCode, asmFor, B, List.map_append, List.map_cons, List.map_nil, toB, List.append_assoc,
      List.cons_append, List.nil_append]
    rfl
  case a => simp only [List.length_append, List.length_cons, List.length_nil]; push_cast; omega
  case b => simp only [List.length_append, List.length_cons, List.length_nil]; push_cast; omega
  case c => simp only [List.length_append, List.length_cons, List.length_nil]; push_cast; omega

theorem forOffs (loop : Nat) (i t s b : List Instr) :
    forCont loop i t s b = ((4 + (i.length + 1) + 1 : Nat) : Int) ∧
    forBrk loop i t s b = ((4 + (i.length + 1) + 1 + (1 + (s.length + 1)) + (1 + t.length) + 1 + (1 + (b.length + 1)) + 1 + 1 : Nat) : Int) := by
  simp only [forBrk, forCont, asmFor, List.length_append, List.length_cons, List.length_nil]
  constructor <;> (try push_cast) <;> (try omega)

theorem ilids_plain_cons (x : Instr) (r : List Instr) (h : ilid? x = none) : ilids (x :: r) = ilids r := by
  rw [ilids_cons, h]; rfl

theorem ilids_forCode (loop : Nat) (i t s b : List Instr) :
    ilids (forCode loop i t s b) = loop :: (ilids i ++ (ilids s ++ (ilids t ++ ilids b))) := by
  simp only [forCode, asmFor, List.append_assoc, List.cons_append, List.nil_append, ilids_append]
  rw [ilids_cons]
  simp only [ilids_plain_cons _ _ (rfl : ilid? Instr.addScope = none), ilids_plain_cons _ _ (rfl : ilid? (Instr.pushMark _) = none),
    ilids_plain_cons _ _ (rfl : ilid? Instr.label = none), ilids_plain_cons _ _ (rfl : ilid? (Instr.popUntilMark _) = none),
    ilids_plain_cons _ _ (rfl : ilid? (Instr.jump _) = none), ilids_plain_cons _ _ (rfl : ilid? (Instr.branch _ _) = none),
    ilids_plain_cons _ _ (rfl : ilid? (Instr.clearMark _) = none), ilids_plain_cons _ _ (rfl : ilid? Instr.removeScope = none),
    ilids_plain_cons _ _ (rfl : ilid? (Instr.push _) = none), ilids_append]
  simp [ilid?, ilids]

theorem idsIn_for (loop : Nat) (i t s b : List Instr) (n2 n3 n4 n5 : Nat)
    (hb : idsIn b (loop + 1) n2) (hi : idsIn i n2 n3) (ht : idsIn t n3 n4) (hs : idsIn s n4 n5)
    (h1 : loop + 1 ≤ n2) (h2 : n2 ≤ n3) (h3 : n3 ≤ n4) (h4 : n4 ≤ n5) : idsIn (forCode loop i t s b) loop n5 := by
  intro l
  have := hb l
  have := hi l
  have := ht l
  have := hs l
  rw [ilids_forCode]
  simp only [List.count_cons, List.count_append]
  by_cases hl : loop = l
  · subst hl
    simp only [beq_self_eq_true, if_true]
    omega
  · have : (loop == l) = false := by simpa using hl
    simp only [this, Bool.false_eq_true, if_false]
    omega

theorem GSok.for_ {gs : GS} (h : GSok gs) (c : Ctx) (label : Option String) : GSok (forGs gs c label) := by
  intro id hid
  simp only [forGs, List.mem_cons, List.length_append, List.length_cons, List.length_nil] at hid ⊢
  rcases hid with rfl | hid
  · omega
  · have := h id hid; omega

/-- the loop, from its four parts (each a fragment in the context of the loop) -/
theorem frag_forCode (c : Ctx) (gs : GS) (hg : GSok gs) (label : Option String) (T : List LoopRec) (i t s b : List Instr)
    (g2 g3 g4 : GS) (e2 : Ext (forGs gs c label) g2) (e3 : Ext g2 g3) (e4 : Ext g3 g4)
    (hT : (T.getD gs.loops.length {}).breakOff = forBrk gs.loops.length i t s b ∧
          (T.getD gs.loops.length {}).contOff = forCont gs.loops.length i t s b)
    (hb : b = [] ∨ FragE { c with tail := false, scopes := c.scopes + 1 } (forGs gs c label) T b)
    (hi : FragE { c with tail := false, scopes := c.scopes + 1 } g2 T i)
    (ht : FragE { c with tail := false, scopes := c.scopes + 1 } g3 T t)
    (hs : FragE { c with tail := false, scopes := c.scopes + 1 } g4 T s) :
    FragE c gs T (forCode gs.loops.length i t s b) := by
  intro d Γ σ hinv
  have hgA := hg.for_ c label
  have hfresh : gs.loops.length ∉ openMarks σ.frames := fun hm => Nat.lt_irrefl _ (hinv.marks _ hm)
  have inv0 := hinv.enter hg label ⟨.exact, 0⟩
  have invJ := hinv.enter hg label ⟨.junk, 0⟩
  obtain ⟨jf, br, jb, hcode, hjf, hbr, hjb⟩ := forCode_B T gs.loops.length i t s b
  obtain ⟨hco, hbo⟩ := forOffs gs.loops.length i t s b
  rw [hcode]
  have pum : ∀ cnt, ExprFrag (Γ.enter (loopInfo gs.loops.length σ (T.getD gs.loops.length {}).breakOff
      (T.getD gs.loops.length {}).contOff)) [.popUntilMark gs.loops.length] (inLoop gs.loops.length σ cnt) (L0 gs.loops.length σ) :=
    fun cnt => efrag_popUntil _ gs.loops.length σ cnt hinv.wf hfresh
  refine frag_for Γ gs.loops.length σ _ _ _ _ (T.getD gs.loops.length {}).breakOff (T.getD gs.loops.length {}).contOff
    jf jb br hinv.wf hfresh hinv.uniq ?_ ?_ ?_ ?_ ?_ ?_ ?_ ?_ ?_
  · rw [hjf]; simp only [List.length_append, List.length_cons, List.length_nil, B_length]
  · rw [hbr]; simp only [List.length_append, List.length_cons, List.length_nil, B_length]
  · rw [hT.2, hco]; simp only [List.length_append, List.length_cons, List.length_nil, B_length]
  · rw [hjb, hT.2, hco]; simp only [List.length_append, List.length_cons, List.length_nil, B_length]
  · rw [hT.1, hbo]; simp only [List.length_append, List.length_cons, List.length_nil, B_length]
  · -- init
    have := hi d _ _ (inv0.ext e2 hgA)
    exact efrag_seq this (pum _)
  · -- test
    exact ht d _ _ (inv0.ext (e2.trans e3) hgA)
  · -- increment
    have := hs d _ _ (invJ.ext ((e2.trans e3).trans e4) hgA)
    exact efrag_seq this (pum _)
  · -- body
    rcases hb with rfl | hb
    · simpa [B] using pum ⟨.exact, 0⟩
    · exact efrag_seq (hb d _ _ inv0) (pum _)

/-! ## Function templates -/

/-- the context of a function body: no enclosing loop of its own; loop ids occur once, loops
allocated before the function (`< N`) do not occur in it, instruction 0 is annotated with the
entry state -/
def fnEnv (N nargs : Nat) (va : Bool) : Env :=
  { loops := [],
    side := fun F A => LoopsUnique F.code ∧ (∀ l, l < N → loopPos F.code l = none) ∧
      annAt A 0 = some ⟨0, [], nargs + (if va then 1 else 0)⟩ ∧ F.varargs = va ∧ F.nfixed = nargs }

/-- the `popStackPutEnv`s of the prologue, last parameter first -/
theorem popParams (Γ : Env) (T : List LoopRec) :
    ∀ (ps : List String) (σ : AState), σ.wf = true →
      SeqFrag Γ (B T ((ps.map Instr.popStackPutEnv).reverse)) (bump σ ps.length) σ
  | [], σ, _ => by simpa [B, bump_zero] using sfrag_nil Γ σ
  | x :: ps, σ, hσ => by
    have ih := popParams Γ T ps (bump σ 1) (by rw [wf_bump]; exact hσ)
    rw [bump_bump] at ih
    have p := frag_simple_at (.popStackPutEnv x) 1 0 1 (fun _ => rfl) (Nat.le_refl _) Γ T σ hσ
    rw [Nat.sub_self, Nat.zero_add, bump_zero] at p
    have := sfrag_seq ih (sfrag_of_e p)
    have hl : (x :: ps).length = 1 + ps.length := by simp [Nat.add_comm]
    rw [hl]
    simpa [B] using this

theorem ilids_fnCode (t : Nat) (params : List String) (b : List Instr) : ilids (fnCode t params b) = ilids b := by
  have hp : ∀ ps : List String, ilids (ps.map Instr.popStackPutEnv) = [] := by
    intro ps
    induction ps with
    | nil => rfl
    | cons x xs ih => simp [ilids_cons, ilid?, ih]
  have hr : ilids ((params.map Instr.popStackPutEnv).reverse) = [] := by
    rw [← List.map_reverse]; exact hp _
  simp only [fnCode, List.append_assoc, List.cons_append, List.nil_append, ilids_append, hr,
    ilids_plain_cons _ _ (rfl : ilid? (Instr.addFuncScope _) = none)]
  have : ilids [Instr.removeScope, Instr.ret] = [] := rfl
  rw [this]; simp

/-- **A whole function.** Prologue (`addFuncScope`, formals bound last first), a body that is a
fragment in the function's own context, epilogue (`removeScope; ret`): verified. -/
theorem fn_verified (T : List LoopRec) (f : FnObj) (t N M : Nat) (b : List Instr)
    (hcode : f.code = fnCode t f.params b) (hnf : f.params.length = f.nargs + (if f.varargs then 1 else 0))
    (hids : idsIn b N M)
    (hfrag : ExprFrag (fnEnv N f.nargs f.varargs) (B T b) ⟨1, [], 0⟩ ⟨1, [], 1⟩) : FnVerified T f := by
  have hw : ∀ a b : Nat, (⟨a, [], b⟩ : AState).wf = true := fun a b => by simp [AState.wf, openMarks]
  -- prologue
  have p0 : ExprFrag (fnEnv N f.nargs f.varargs) [BInstr.addFuncScope] ⟨0, [], f.params.length⟩ ⟨1, [], f.params.length⟩ := by
    have := efrag_scopeUp (fnEnv N f.nargs f.varargs) .addFuncScope ⟨0, [], f.params.length⟩ (hw _ _) rfl
    simpa [deeper] using this
  have p1 := popParams (fnEnv N f.nargs f.varargs) T f.params ⟨1, [], 0⟩ (hw _ _)
  have hb1 : bump (⟨1, [], 0⟩ : AState) f.params.length = ⟨1, [], f.params.length⟩ := by simp [bump]
  rw [hb1] at p1
  have p3 : ExprFrag (fnEnv N f.nargs f.varargs) [BInstr.removeScope] ⟨1, [], 1⟩ retState := by
    have := efrag_scopeDown (fnEnv N f.nargs f.varargs) retState (hw _ _)
    simpa [deeper, retState] using this
  have hall := efrag_seq (efrag_seq (efrag_seq_s p0 p1) hfrag) p3
  obtain ⟨mid, hfr⟩ := hall
  let F : Fn := { kind := .fn, nformals := f.params.length, varargs := f.varargs, nfixed := f.nargs, code := B T f.code }
  have hentry : F.entry = ⟨0, [], f.params.length⟩ := rfl
  refine ⟨(F.entry :: mid ++ [retState]).map some ++ [none], ?_⟩
  apply verify_of_frag_ret (fnEnv N f.nargs f.varargs) F
    ([BInstr.addFuncScope] ++ B T (List.map Instr.popStackPutEnv f.params).reverse ++ B T b ++ [BInstr.removeScope]) mid
  · show B T f.code = _
    rw [hcode]
    simp [fnCode, B, toB, List.append_assoc]
  · rw [hentry]; exact hfr
  · -- the side condition holds for this very function
    have hl : lids F.code = ilids b := by
      show lids (B T f.code) = _
      rw [lids_B, hcode, ilids_fnCode]
    refine ⟨⟨?_, ?_, ?_, rfl, rfl⟩, fun i hi => by cases hi⟩
    · apply loopsUnique_of_nodup
      rw [hl]; exact nodup_of_idsIn hids
    · intro l hlN
      apply loopPos_none
      rw [hl]
      intro hm
      have := (mem_range_of_idsIn hids l hm).1
      omega
    · rw [annAt_append_none _ 0 (by simp)]
      show some F.entry = _
      rw [hentry, hnf]

end ZygoVerif.Bal
