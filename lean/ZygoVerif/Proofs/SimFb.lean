/-
C02, execution half — `break` and `continue`.

Fb ls = the statement-level fragment around Fc: `break`/`continue` (naming an enclosing loop of
`ls`, the labels of the enclosing loops, innermost first), `begin`, `cond` (tests in Fc), `let`/`letseq`
(initialisers in Fc), `newScope`, `for` (initialiser, test, increment in Fc; the body in Fb with the
loop's label added) — and everything of Fc. So `break`/`continue` occur where statements occur, not
inside operands, tests, initialisers, array elements, `and`/`or` arms or `def`/`set` values.

`BreakInstr`/`ContinueInstr` find the loop's `loopStart` in the current function, pop the scopes
opened inside the loop (a number computed at compile time from `gen.scopes`) and jump to
`loopStart + breakOffset/continueOffset`, offsets the generator stored in the loop record AFTER it
compiled the body. What is left on the data stack above the loop's mark is cleared by `clearMark` /
the increment's `popUntilMark`.
-/
import ZygoVerif.Proofs.SimFbGen
set_option linter.unusedSimpArgs false
namespace ZygoVerif.Sim
open ZygoVerif.Core ZygoVerif.VM

/-! ## The enclosing loops at run time -/

/-- values above a loop's mark: present, and none of them that loop's mark -/
def GoodAbove (id : Nat) (G : List (Option Val)) : Prop := ∀ x ∈ G, ∃ v, x = some v ∧ v ≠ .mark id

theorem GoodAbove.append {id : Nat} {G H : List (Option Val)} (hg : GoodAbove id G) (hh : GoodAbove id H) :
    GoodAbove id (G ++ H) := by
  intro x hx
  rcases List.mem_append.mp hx with hx | hx
  · exact hg x hx
  · exact hh x hx

theorem GoodAbove.nil (id : Nat) : GoodAbove id [] := fun x hx => by cases hx

theorem GoodAbove.clean {id : Nat} {v : Val} (hv : Clean v) : GoodAbove id [some v] := by
  intro x hx
  simp only [List.mem_singleton] at hx
  exact ⟨v, hx, fun e => by subst e; exact hv⟩

/-- the run-time facts about one enclosing loop -/
structure CtxOk1 (γ : LCtx) (sc : Nat) (s : St) (rs : Ref.St) : Prop where
  idlt : γ.id < s.loops.length
  start : findLoopStart (fnOf s s.curfunc).code γ.id = some γ.start
  brk : (γ.start : Int) + (s.loops.getD γ.id {}).breakOff = γ.brkPos
  cont : (γ.start : Int) + (s.loops.getD γ.id {}).contOff = γ.contPos
  lin : ∃ extra, s.linear = extra ++ γ.lin ∧ extra.length + γ.depth + 1 = sc
  chain : Chain rs.frames γ.fr γ.lin
  data : ∃ G, s.data = G ++ some (.mark γ.id) :: γ.D ∧ GoodAbove γ.id G

def CtxOk (Γ : List LCtx) (sc : Nat) (s : St) (rs : Ref.St) : Prop := ∀ γ ∈ Γ, CtxOk1 γ sc s rs

/-- everything a balanced piece of code may do keeps the loop facts: same function, control stacks
and old loop records (`Frame`), frames only grew, and on the data stack only good values were added -/
theorem CtxOk.after {Γ : List LCtx} {sc : Nat} {s s' : St} {rs rs' : Ref.St} (h : CtxOk Γ sc s rs)
    (hfn : fnOf s' s'.curfunc = fnOf s s.curfunc) (hfr : Frame s s') (hext : FramesExt rs rs')
    (hd : ∃ X, s'.data = X ++ s.data ∧ ∀ γ ∈ Γ, GoodAbove γ.id X) : CtxOk Γ sc s' rs' := by
  intro γ hγ
  obtain ⟨h1, h2, h3, h4, h5, h6, h7⟩ := h γ hγ
  obtain ⟨X, hX, hgood⟩ := hd
  obtain ⟨G, hG, hGg⟩ := h7
  refine ⟨Nat.lt_of_lt_of_le h1 hfr.loopsLen, by rw [hfn]; exact h2, by rw [hfr.loops γ.id h1]; exact h3,
    by rw [hfr.loops γ.id h1]; exact h4, by rw [hfr.linear]; exact h5, Chain.ext hext h6,
    ⟨X ++ G, by rw [hX, hG, List.append_assoc], (hgood γ hγ).append hGg⟩⟩

/-! ## The machine: marks under garbage, `break`, `continue` -/

/-- popping through good values down to the mark -/
theorem run_popToMark_good (l : Nat) (keep : Bool) : ∀ (G : List (Option Val)) (f : Nat) (s : St) (D : List (Option Val)),
    s.data = G ++ some (.mark l) :: D → GoodAbove l G →
    (popToMark l keep (G.length + f + 1)).run s = (.ok (), { s with data := if keep then some (.mark l) :: D else D })
  | [], f, s, D, hd, _ => by
    simpa using run_popToMark_hit l keep f s D (by simpa using hd)
  | x :: G, f, s, D, hd, hg => by
    obtain ⟨v, rfl, hv⟩ := hg x (List.mem_cons_self ..)
    have hl : (some v :: G).length + f + 1 = (G.length + f + 1) + 1 := by simp; omega
    rw [hl, run_popToMark_skip l keep _ s v (G ++ some (.mark l) :: D) (by rw [hd]; rfl) hv,
      run_popToMark_good l keep G f _ D rfl (fun y hy => hg y (List.mem_cons_of_mem _ hy))]

/-- `PopUntilStackmark` under any good values -/
theorem exec_popUntilMark_good (f : Nat) (l : Nat) (s : St) (G : List (Option Val)) (D : List (Option Val))
    (hd : s.data = G ++ some (.mark l) :: D) (hG : GoodAbove l G) :
    (exec (f + 1) (.popUntilMark l)).run s = (.ok (), s.jmp (s.pc + 1) (some (.mark l) :: D)) := by
  rw [exec]
  simp only [run_bind, run_incPc, run_get]
  have hlen : ({ s with pc := s.pc + 1 } : St).data.length + 1 = G.length + (D.length + 1) + 1 := by
    show s.data.length + 1 = _; rw [hd]; simp
  rw [hlen, run_popToMark_good l true G _ _ D (by show s.data = _; exact hd) hG]
  rfl

/-- `ClearStackmark` under any good values -/
theorem exec_clearMark_good (f : Nat) (l : Nat) (s : St) (G : List (Option Val)) (D : List (Option Val))
    (hd : s.data = G ++ some (.mark l) :: D) (hG : GoodAbove l G) :
    (exec (f + 1) (.clearMark l)).run s = (.ok (), s.jmp (s.pc + 1) D) := by
  rw [exec]
  simp only [run_bind, run_get]
  have hlen : s.data.length + 1 = G.length + (D.length + 1) + 1 := by rw [hd]; simp
  rw [hlen, run_popToMark_good l false G _ s D hd hG]
  simp only [Bool.false_eq_true, if_false, run_incPc]
  rfl

theorem run_popScopes : ∀ (extra : List (Option Nat)) (s : St) (rest : List (Option Nat)),
    s.linear = extra ++ rest → (popScopes extra.length).run s = (.ok (), { s with linear := rest })
  | [], s, rest, h => by
    simp only [List.length_nil, popScopes, run_pure]
    rw [show rest = s.linear from by simpa using h.symm]
  | x :: extra, s, rest, h => by
    simp only [List.length_cons, popScopes, run_bind]
    have h1 : (popScope).run s = (.ok (), { s with linear := extra ++ rest }) := by
      unfold popScope
      simp only [run_bind, run_get, h, List.cons_append, run_set]
    rw [h1]
    exact run_popScopes extra _ rest rfl

/-- where a `break`/`continue` leaves the machine -/
def jumpedTo (s : St) (rest : List (Option Nat)) (pc : Int) : St := { s with linear := rest, pc := pc }

theorem exec_brk (f l n : Nat) (s : St) (pos : Nat) (extra rest : List (Option Nat))
    (hfind : findLoopStart (fnOf s s.curfunc).code l = some pos) (hlin : s.linear = extra ++ rest) (hn : n = extra.length) :
    (exec (f + 1) (.brk l n)).run s = (.ok (), jumpedTo s rest ((pos : Int) + (s.loops.getD l {}).breakOff)) := by
  subst hn
  rw [exec]
  simp only [run_bind, run_get, hfind, run_popScopes extra s rest hlin, run_modify]
  rfl

theorem exec_cont (f l n : Nat) (s : St) (pos : Nat) (extra rest : List (Option Nat))
    (hfind : findLoopStart (fnOf s s.curfunc).code l = some pos) (hlin : s.linear = extra ++ rest) (hn : n = extra.length) :
    (exec (f + 1) (.cont l n)).run s = (.ok (), jumpedTo s rest ((pos : Int) + (s.loops.getD l {}).contOff)) := by
  subst hn
  rw [exec]
  simp only [run_bind, run_get, hfind, run_popScopes extra s rest hlin, run_modify]
  rfl

end ZygoVerif.Sim
