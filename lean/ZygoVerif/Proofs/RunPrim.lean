/-
Proofs/RunPrim.lean — the pure builtins (`Core.prim`) and the source of a lazy argument as data
(`Core.quoteE`) make storable values of storable values: no stack-mark and no invalid function id
can enter the store through them (`primOK`, `quoteOK`: the two closure facts `allSpec` needs).
-/
import ZygoVerif.Proofs.RunCall2
set_option linter.unusedSimpArgs false
set_option linter.unusedVariables false
namespace ZygoVerif.RunInv
open ZygoVerif.Core ZygoVerif.VM

theorem heapOK_get {n : Nat} {h : DataHeap} (hh : heapOK n h) (r : Nat) : ∀ v ∈ h.get r, vok n v = true := by
  intro v hv
  unfold DataHeap.get at hv
  rw [List.getD_eq_getElem?_getD] at hv
  cases hr : h.arrs[r]? with
  | none => rw [hr] at hv; simp at hv
  | some a => rw [hr] at hv; exact hh a (List.mem_of_getElem? hr) v hv

theorem heapOK_set {n : Nat} {h : DataHeap} (hh : heapOK n h) (r : Nat) (xs : List Val) (hx : ∀ v ∈ xs, vok n v = true) :
    heapOK n (h.set r xs) := by
  intro a ha v hv
  simp only [DataHeap.set] at ha
  rcases List.mem_or_eq_of_mem_set ha with hm | rfl
  · exact hh a hm v hv
  · exact hx v hv

theorem concatArrs_vok {n : Nat} {h : DataHeap} (hh : heapOK n h) : ∀ (rest : List Val) (acc out : List Val),
    (∀ v ∈ acc, vok n v = true) → concatArrs h acc rest = some out → ∀ v ∈ out, vok n v = true
  | [], acc, out, ha, hc => by simp only [concatArrs, Option.some.injEq] at hc; subst hc; exact ha
  | x :: rest, acc, out, ha, hc => by
    cases x <;> simp only [concatArrs] at hc <;> try (cases hc)
    rename_i r
    refine concatArrs_vok hh rest _ out ?_ hc
    intro v hv
    rcases List.mem_append.mp hv with h1 | h1
    · exact ha v h1
    · exact heapOK_get hh r v h1

theorem concatLists_vok {n : Nat} : ∀ (bs : List Val) (a out : Val), vok n a = true → (∀ b ∈ bs, vok n b = true) →
    concatLists a bs = some out → vok n out = true
  | [], a, out, ha, _, hc => by simp only [concatLists, Option.some.injEq] at hc; subst hc; exact ha
  | b :: bs, a, out, ha, hb, hc => by
    simp only [concatLists] at hc
    split at hc
    · rename_i xs ys hx hy
      split at hc
      · cases hc
      · rename_i r hr
        refine concatLists_vok bs _ out ?_ (fun x hx' => hb x (by simp [hx'])) hc
        apply vok_mkList
        intro v hv
        rcases List.mem_append.mp hv with h1 | h1
        · exact listToArray_vok a xs hx ha v h1
        · exact listToArray_vok b ys hy (hb b (by simp)) v h1
    · cases hc

theorem vok_pair_l {n : Nat} {a b : Val} (h : vok n (.pair a b) = true) : vok n a = true := by
  simp only [vok, Bool.and_eq_true] at h; exact h.1
theorem vok_pair_r {n : Nat} {a b : Val} (h : vok n (.pair a b) = true) : vok n b = true := by
  simp only [vok, Bool.and_eq_true] at h; exact h.2

theorem prim_case0 (n : Nat) (name : String) (args : List Val) (h h' : DataHeap) (v : Val)
    (hp : (match args with
      | [] => none
      | [x] =>
        if name = "-" then (match x with | .int v => some (.int (0#64 - v), h) | _ => none)
        else if name = "+" then some (x, h)
        else none
      | x :: rest =>
        match allInts (x :: rest) with
        | some (v :: vs) =>
          let f := fun (a b : BitVec 64) => if name = "+" then a + b else if name = "-" then a - b else a * b
          some (.int (vs.foldl f v), h)
        | _ => none) = some (v, h')) (ha : ∀ a ∈ args, vok n a = true) (hh : heapOK n h) :
    vok n v = true ∧ heapOK n h' := by
  repeat' (split at hp)
  all_goals (try (simp only [Option.map_eq_some_iff] at hp))
  all_goals (try (obtain ⟨w, hw1, hw2⟩ := hp))
  all_goals (try (cases hw2))
  all_goals (try (cases hp))
  all_goals first
    | exact ⟨rfl, hh⟩
    | (refine ⟨ha _ ?_, hh⟩; simp; done)
    | (refine ⟨vok_pair_l (b := _) (ha _ ?_), hh⟩; simp; done)
    | (refine ⟨vok_pair_r (a := _) (ha _ ?_), hh⟩; simp; done)
    | (refine ⟨vok_pair_l (vok_pair_r (a := _) (ha _ ?_)), hh⟩; simp; done)
    | exact ⟨vok_pair_l (ha _ List.mem_cons_self), hh⟩
    | exact ⟨vok_pair_r (ha _ List.mem_cons_self), hh⟩
    | exact ⟨vok_pair_l (vok_pair_r (ha _ List.mem_cons_self)), hh⟩
    | (refine ⟨?_, hh⟩; simp only [vok, Bool.and_eq_true]; exact ⟨ha _ (by simp), ha _ (by simp)⟩)
    | skip

theorem prim_case1 (n : Nat) (name : String) (args : List Val) (h h' : DataHeap) (v : Val)
    (hp : (match args with
    | [.int a, .int b] => if b = 0#64 then none else some (.int (a.srem b), h)
    | _ => none) = some (v, h')) (ha : ∀ a ∈ args, vok n a = true) (hh : heapOK n h) :
    vok n v = true ∧ heapOK n h' := by
  repeat' (split at hp)
  all_goals (try (simp only [Option.map_eq_some_iff] at hp))
  all_goals (try (obtain ⟨w, hw1, hw2⟩ := hp))
  all_goals (try (cases hw2))
  all_goals (try (cases hp))
  all_goals first
    | exact ⟨rfl, hh⟩
    | (refine ⟨ha _ ?_, hh⟩; simp; done)
    | (refine ⟨vok_pair_l (b := _) (ha _ ?_), hh⟩; simp; done)
    | (refine ⟨vok_pair_r (a := _) (ha _ ?_), hh⟩; simp; done)
    | (refine ⟨vok_pair_l (vok_pair_r (a := _) (ha _ ?_)), hh⟩; simp; done)
    | exact ⟨vok_pair_l (ha _ List.mem_cons_self), hh⟩
    | exact ⟨vok_pair_r (ha _ List.mem_cons_self), hh⟩
    | exact ⟨vok_pair_l (vok_pair_r (ha _ List.mem_cons_self)), hh⟩
    | (refine ⟨?_, hh⟩; simp only [vok, Bool.and_eq_true]; exact ⟨ha _ (by simp), ha _ (by simp)⟩)
    | skip

theorem prim_case2 (n : Nat) (name : String) (args : List Val) (h h' : DataHeap) (v : Val)
    (hp : (match args with
    | [a, b] => (compareVals a b).map (fun r => (.bool (cmpResult name r), h))
    | _ => none) = some (v, h')) (ha : ∀ a ∈ args, vok n a = true) (hh : heapOK n h) :
    vok n v = true ∧ heapOK n h' := by
  repeat' (split at hp)
  all_goals (try (simp only [Option.map_eq_some_iff] at hp))
  all_goals (try (obtain ⟨w, hw1, hw2⟩ := hp))
  all_goals (try (cases hw2))
  all_goals (try (cases hp))
  all_goals first
    | exact ⟨rfl, hh⟩
    | (refine ⟨ha _ ?_, hh⟩; simp; done)
    | (refine ⟨vok_pair_l (b := _) (ha _ ?_), hh⟩; simp; done)
    | (refine ⟨vok_pair_r (a := _) (ha _ ?_), hh⟩; simp; done)
    | (refine ⟨vok_pair_l (vok_pair_r (a := _) (ha _ ?_)), hh⟩; simp; done)
    | exact ⟨vok_pair_l (ha _ List.mem_cons_self), hh⟩
    | exact ⟨vok_pair_r (ha _ List.mem_cons_self), hh⟩
    | exact ⟨vok_pair_l (vok_pair_r (ha _ List.mem_cons_self)), hh⟩
    | (refine ⟨?_, hh⟩; simp only [vok, Bool.and_eq_true]; exact ⟨ha _ (by simp), ha _ (by simp)⟩)
    | skip

theorem prim_case3 (n : Nat) (name : String) (args : List Val) (h h' : DataHeap) (v : Val)
    (hp : (match args with
    | [a] => some (.bool (!truthy a), h)
    | _ => none) = some (v, h')) (ha : ∀ a ∈ args, vok n a = true) (hh : heapOK n h) :
    vok n v = true ∧ heapOK n h' := by
  repeat' (split at hp)
  all_goals (try (simp only [Option.map_eq_some_iff] at hp))
  all_goals (try (obtain ⟨w, hw1, hw2⟩ := hp))
  all_goals (try (cases hw2))
  all_goals (try (cases hp))
  all_goals first
    | exact ⟨rfl, hh⟩
    | (refine ⟨ha _ ?_, hh⟩; simp; done)
    | (refine ⟨vok_pair_l (b := _) (ha _ ?_), hh⟩; simp; done)
    | (refine ⟨vok_pair_r (a := _) (ha _ ?_), hh⟩; simp; done)
    | (refine ⟨vok_pair_l (vok_pair_r (a := _) (ha _ ?_)), hh⟩; simp; done)
    | exact ⟨vok_pair_l (ha _ List.mem_cons_self), hh⟩
    | exact ⟨vok_pair_r (ha _ List.mem_cons_self), hh⟩
    | exact ⟨vok_pair_l (vok_pair_r (ha _ List.mem_cons_self)), hh⟩
    | (refine ⟨?_, hh⟩; simp only [vok, Bool.and_eq_true]; exact ⟨ha _ (by simp), ha _ (by simp)⟩)
    | skip

theorem prim_case4 (n : Nat) (name : String) (args : List Val) (h h' : DataHeap) (v : Val)
    (hp : (match args with
    | [a, b] => some (.pair a b, h)
    | _ => none) = some (v, h')) (ha : ∀ a ∈ args, vok n a = true) (hh : heapOK n h) :
    vok n v = true ∧ heapOK n h' := by
  repeat' (split at hp)
  all_goals (try (simp only [Option.map_eq_some_iff] at hp))
  all_goals (try (obtain ⟨w, hw1, hw2⟩ := hp))
  all_goals (try (cases hw2))
  all_goals (try (cases hp))
  all_goals first
    | exact ⟨rfl, hh⟩
    | (refine ⟨ha _ ?_, hh⟩; simp; done)
    | (refine ⟨vok_pair_l (b := _) (ha _ ?_), hh⟩; simp; done)
    | (refine ⟨vok_pair_r (a := _) (ha _ ?_), hh⟩; simp; done)
    | (refine ⟨vok_pair_l (vok_pair_r (a := _) (ha _ ?_)), hh⟩; simp; done)
    | exact ⟨vok_pair_l (ha _ List.mem_cons_self), hh⟩
    | exact ⟨vok_pair_r (ha _ List.mem_cons_self), hh⟩
    | exact ⟨vok_pair_l (vok_pair_r (ha _ List.mem_cons_self)), hh⟩
    | (refine ⟨?_, hh⟩; simp only [vok, Bool.and_eq_true]; exact ⟨ha _ (by simp), ha _ (by simp)⟩)
    | skip

theorem prim_case5 (n : Nat) (name : String) (args : List Val) (h h' : DataHeap) (v : Val)
    (hp : (match args with
    | [.pair a _] => some (a, h)
    | [.arr r] => (h.get r).head?.map (·, h)
    | _ => none) = some (v, h')) (ha : ∀ a ∈ args, vok n a = true) (hh : heapOK n h) :
    vok n v = true ∧ heapOK n h' := by
  repeat' (split at hp)
  all_goals (try (simp only [Option.map_eq_some_iff] at hp))
  all_goals (try (obtain ⟨w, hw1, hw2⟩ := hp))
  all_goals (try (cases hw2))
  all_goals (try (cases hp))
  all_goals first
    | exact ⟨rfl, hh⟩
    | (refine ⟨ha _ ?_, hh⟩; simp; done)
    | (refine ⟨vok_pair_l (b := _) (ha _ ?_), hh⟩; simp; done)
    | (refine ⟨vok_pair_r (a := _) (ha _ ?_), hh⟩; simp; done)
    | (refine ⟨vok_pair_l (vok_pair_r (a := _) (ha _ ?_)), hh⟩; simp; done)
    | exact ⟨vok_pair_l (ha _ List.mem_cons_self), hh⟩
    | exact ⟨vok_pair_r (ha _ List.mem_cons_self), hh⟩
    | exact ⟨vok_pair_l (vok_pair_r (ha _ List.mem_cons_self)), hh⟩
    | (refine ⟨?_, hh⟩; simp only [vok, Bool.and_eq_true]; exact ⟨ha _ (by simp), ha _ (by simp)⟩)
    | skip
  all_goals (try exact ⟨heapOK_get hh _ _ (List.mem_of_mem_head? hw1), hh⟩)

theorem prim_case6 (n : Nat) (name : String) (args : List Val) (h h' : DataHeap) (v : Val)
    (hp : (match args with
    | [.pair _ t] => some (t, h)
    | [.arr r] => (match h.get r with | [] => some (.arr r, h) | _ :: t => some (h.alloc t))
    | [.nil] => some (.nil, h)
    | _ => none) = some (v, h')) (ha : ∀ a ∈ args, vok n a = true) (hh : heapOK n h) :
    vok n v = true ∧ heapOK n h' := by
  repeat' (split at hp)
  all_goals (try (simp only [Option.map_eq_some_iff] at hp))
  all_goals (try (obtain ⟨w, hw1, hw2⟩ := hp))
  all_goals (try (cases hw2))
  all_goals (try (cases hp))
  all_goals first
    | exact ⟨rfl, hh⟩
    | (refine ⟨ha _ ?_, hh⟩; simp; done)
    | (refine ⟨vok_pair_l (b := _) (ha _ ?_), hh⟩; simp; done)
    | (refine ⟨vok_pair_r (a := _) (ha _ ?_), hh⟩; simp; done)
    | (refine ⟨vok_pair_l (vok_pair_r (a := _) (ha _ ?_)), hh⟩; simp; done)
    | exact ⟨vok_pair_l (ha _ List.mem_cons_self), hh⟩
    | exact ⟨vok_pair_r (ha _ List.mem_cons_self), hh⟩
    | exact ⟨vok_pair_l (vok_pair_r (ha _ List.mem_cons_self)), hh⟩
    | (refine ⟨?_, hh⟩; simp only [vok, Bool.and_eq_true]; exact ⟨ha _ (by simp), ha _ (by simp)⟩)
    | skip
  all_goals (try exact ⟨rfl, heapOK_alloc hh _ (fun x hx => heapOK_get hh _ x (by rename_i hg; rw [hg]; simp [hx]))⟩)

theorem prim_case7 (n : Nat) (name : String) (args : List Val) (h h' : DataHeap) (v : Val)
    (hp : (match args with
    | [.pair _ (.pair b _)] => some (b, h)
    | [.arr r] => (match h.get r with | _ :: b :: _ => some (b, h) | _ => none)
    | _ => none) = some (v, h')) (ha : ∀ a ∈ args, vok n a = true) (hh : heapOK n h) :
    vok n v = true ∧ heapOK n h' := by
  repeat' (split at hp)
  all_goals (try (simp only [Option.map_eq_some_iff] at hp))
  all_goals (try (obtain ⟨w, hw1, hw2⟩ := hp))
  all_goals (try (cases hw2))
  all_goals (try (cases hp))
  all_goals first
    | exact ⟨rfl, hh⟩
    | (refine ⟨ha _ ?_, hh⟩; simp; done)
    | (refine ⟨vok_pair_l (b := _) (ha _ ?_), hh⟩; simp; done)
    | (refine ⟨vok_pair_r (a := _) (ha _ ?_), hh⟩; simp; done)
    | (refine ⟨vok_pair_l (vok_pair_r (a := _) (ha _ ?_)), hh⟩; simp; done)
    | exact ⟨vok_pair_l (ha _ List.mem_cons_self), hh⟩
    | exact ⟨vok_pair_r (ha _ List.mem_cons_self), hh⟩
    | exact ⟨vok_pair_l (vok_pair_r (ha _ List.mem_cons_self)), hh⟩
    | (refine ⟨?_, hh⟩; simp only [vok, Bool.and_eq_true]; exact ⟨ha _ (by simp), ha _ (by simp)⟩)
    | skip
  all_goals (try exact ⟨heapOK_get hh _ _ (by rename_i hg; rw [hg]; simp), hh⟩)
  all_goals (try (rename_i hg; exact ⟨heapOK_get hh _ _ (by rw [hg]; simp), hh⟩))

theorem prim_case8 (n : Nat) (name : String) (args : List Val) (h h' : DataHeap) (v : Val)
    (hp : (some (mkList args, h)) = some (v, h')) (ha : ∀ a ∈ args, vok n a = true) (hh : heapOK n h) :
    vok n v = true ∧ heapOK n h' := by
  cases hp
  all_goals (try (simp only [Option.map_eq_some_iff] at hp))
  all_goals (try (obtain ⟨w, hw1, hw2⟩ := hp))
  all_goals (try (cases hw2))
  all_goals (try (cases hp))
  all_goals first
    | exact ⟨rfl, hh⟩
    | (refine ⟨ha _ ?_, hh⟩; simp; done)
    | (refine ⟨vok_pair_l (b := _) (ha _ ?_), hh⟩; simp; done)
    | (refine ⟨vok_pair_r (a := _) (ha _ ?_), hh⟩; simp; done)
    | (refine ⟨vok_pair_l (vok_pair_r (a := _) (ha _ ?_)), hh⟩; simp; done)
    | exact ⟨vok_pair_l (ha _ List.mem_cons_self), hh⟩
    | exact ⟨vok_pair_r (ha _ List.mem_cons_self), hh⟩
    | exact ⟨vok_pair_l (vok_pair_r (ha _ List.mem_cons_self)), hh⟩
    | (refine ⟨?_, hh⟩; simp only [vok, Bool.and_eq_true]; exact ⟨ha _ (by simp), ha _ (by simp)⟩)
    | skip
  all_goals (try exact ⟨vok_mkList _ ha, hh⟩)

theorem prim_case9 (n : Nat) (name : String) (args : List Val) (h h' : DataHeap) (v : Val)
    (hp : (some (h.alloc args)) = some (v, h')) (ha : ∀ a ∈ args, vok n a = true) (hh : heapOK n h) :
    vok n v = true ∧ heapOK n h' := by
  cases hp
  all_goals (try (simp only [Option.map_eq_some_iff] at hp))
  all_goals (try (obtain ⟨w, hw1, hw2⟩ := hp))
  all_goals (try (cases hw2))
  all_goals (try (cases hp))
  all_goals first
    | exact ⟨rfl, hh⟩
    | (refine ⟨ha _ ?_, hh⟩; simp; done)
    | (refine ⟨vok_pair_l (b := _) (ha _ ?_), hh⟩; simp; done)
    | (refine ⟨vok_pair_r (a := _) (ha _ ?_), hh⟩; simp; done)
    | (refine ⟨vok_pair_l (vok_pair_r (a := _) (ha _ ?_)), hh⟩; simp; done)
    | exact ⟨vok_pair_l (ha _ List.mem_cons_self), hh⟩
    | exact ⟨vok_pair_r (ha _ List.mem_cons_self), hh⟩
    | exact ⟨vok_pair_l (vok_pair_r (ha _ List.mem_cons_self)), hh⟩
    | (refine ⟨?_, hh⟩; simp only [vok, Bool.and_eq_true]; exact ⟨ha _ (by simp), ha _ (by simp)⟩)
    | skip
  all_goals (try exact ⟨rfl, heapOK_alloc hh _ ha⟩)

theorem prim_case10 (n : Nat) (name : String) (args : List Val) (h h' : DataHeap) (v : Val)
    (hp : (match args with
    | [.nil] => some (.int 0#64, h)
    | [.arr r] => some (.int (BitVec.ofNat 64 (h.get r).length), h)
    | [.str s] => some (.int (BitVec.ofNat 64 s.utf8ByteSize), h)
    | [.pair a b] => (listToArray (.pair a b)).map (fun l => (.int (BitVec.ofNat 64 l.length), h))
    | _ => none) = some (v, h')) (ha : ∀ a ∈ args, vok n a = true) (hh : heapOK n h) :
    vok n v = true ∧ heapOK n h' := by
  repeat' (split at hp)
  all_goals (try (simp only [Option.map_eq_some_iff] at hp))
  all_goals (try (obtain ⟨w, hw1, hw2⟩ := hp))
  all_goals (try (cases hw2))
  all_goals (try (cases hp))
  all_goals first
    | exact ⟨rfl, hh⟩
    | (refine ⟨ha _ ?_, hh⟩; simp; done)
    | (refine ⟨vok_pair_l (b := _) (ha _ ?_), hh⟩; simp; done)
    | (refine ⟨vok_pair_r (a := _) (ha _ ?_), hh⟩; simp; done)
    | (refine ⟨vok_pair_l (vok_pair_r (a := _) (ha _ ?_)), hh⟩; simp; done)
    | exact ⟨vok_pair_l (ha _ List.mem_cons_self), hh⟩
    | exact ⟨vok_pair_r (ha _ List.mem_cons_self), hh⟩
    | exact ⟨vok_pair_l (vok_pair_r (ha _ List.mem_cons_self)), hh⟩
    | (refine ⟨?_, hh⟩; simp only [vok, Bool.and_eq_true]; exact ⟨ha _ (by simp), ha _ (by simp)⟩)
    | skip

theorem prim_case11 (n : Nat) (name : String) (args : List Val) (h h' : DataHeap) (v : Val)
    (hp : (match args with
    | [.arr r, x] => some (h.alloc (h.get r ++ [x]))
    | _ => none) = some (v, h')) (ha : ∀ a ∈ args, vok n a = true) (hh : heapOK n h) :
    vok n v = true ∧ heapOK n h' := by
  repeat' (split at hp)
  all_goals (try (simp only [Option.map_eq_some_iff] at hp))
  all_goals (try (obtain ⟨w, hw1, hw2⟩ := hp))
  all_goals (try (cases hw2))
  all_goals (try (cases hp))
  all_goals first
    | exact ⟨rfl, hh⟩
    | (refine ⟨ha _ ?_, hh⟩; simp; done)
    | (refine ⟨vok_pair_l (b := _) (ha _ ?_), hh⟩; simp; done)
    | (refine ⟨vok_pair_r (a := _) (ha _ ?_), hh⟩; simp; done)
    | (refine ⟨vok_pair_l (vok_pair_r (a := _) (ha _ ?_)), hh⟩; simp; done)
    | exact ⟨vok_pair_l (ha _ List.mem_cons_self), hh⟩
    | exact ⟨vok_pair_r (ha _ List.mem_cons_self), hh⟩
    | exact ⟨vok_pair_l (vok_pair_r (ha _ List.mem_cons_self)), hh⟩
    | (refine ⟨?_, hh⟩; simp only [vok, Bool.and_eq_true]; exact ⟨ha _ (by simp), ha _ (by simp)⟩)
    | skip
  all_goals (try exact ⟨rfl, heapOK_alloc hh _ (fun x hx => by
    rcases List.mem_append.mp hx with h1 | h1
    · exact heapOK_get hh _ x h1
    · simp at h1; subst h1; exact ha _ (by simp))⟩)

theorem prim_case12 (n : Nat) (name : String) (args : List Val) (h h' : DataHeap) (v : Val)
    (hp : (match args with
    | .arr r :: rest => (concatArrs h (h.get r) rest).map h.alloc
    | .str s :: rest => (concatStrs s rest).map (fun s' => (.str s', h))
    | [.pair a b] => some (.pair a b, h)
    | .pair a b :: rest => (concatLists (.pair a b) rest).map (·, h)
    | _ => none) = some (v, h')) (ha : ∀ a ∈ args, vok n a = true) (hh : heapOK n h) :
    vok n v = true ∧ heapOK n h' := by
  repeat' (split at hp)
  all_goals (try (simp only [Option.map_eq_some_iff] at hp))
  all_goals (try (obtain ⟨w, hw1, hw2⟩ := hp))
  all_goals (try (cases hw2))
  all_goals (try (cases hp))
  all_goals first
    | exact ⟨rfl, hh⟩
    | (refine ⟨ha _ ?_, hh⟩; simp; done)
    | (refine ⟨vok_pair_l (b := _) (ha _ ?_), hh⟩; simp; done)
    | (refine ⟨vok_pair_r (a := _) (ha _ ?_), hh⟩; simp; done)
    | (refine ⟨vok_pair_l (vok_pair_r (a := _) (ha _ ?_)), hh⟩; simp; done)
    | exact ⟨vok_pair_l (ha _ List.mem_cons_self), hh⟩
    | exact ⟨vok_pair_r (ha _ List.mem_cons_self), hh⟩
    | exact ⟨vok_pair_l (vok_pair_r (ha _ List.mem_cons_self)), hh⟩
    | (refine ⟨?_, hh⟩; simp only [vok, Bool.and_eq_true]; exact ⟨ha _ (by simp), ha _ (by simp)⟩)
    | skip
  all_goals (try exact ⟨rfl, heapOK_alloc hh _ (concatArrs_vok hh _ _ _ (heapOK_get hh _) hw1)⟩)
  all_goals (try exact ⟨concatLists_vok _ _ _ (ha _ (by simp)) (fun b hb => ha b (by simp [hb])) hw1, hh⟩)

theorem filter_mem {α} {p : α → Bool} {o : Option α} {v : α} (h : o.filter p = some v) : o = some v := by
  cases o with
  | none => simp at h
  | some x =>
    simp only [Option.filter] at h
    split at h
    · exact h
    · cases h

theorem prim_case13 (n : Nat) (name : String) (args : List Val) (h h' : DataHeap) (v : Val)
    (hp : (match args with
    | [.arr r, .int i] => ((h.get r)[i.toInt.toNat]?.filter (fun _ => i.toInt ≥ 0)).map (·, h)
    | [.arr r, .int i, d] =>
      some (((h.get r)[i.toInt.toNat]?.filter (fun _ => i.toInt ≥ 0)).getD d, h)
    | _ => none) = some (v, h')) (ha : ∀ a ∈ args, vok n a = true) (hh : heapOK n h) :
    vok n v = true ∧ heapOK n h' := by
  repeat' (split at hp)
  all_goals (try (simp only [Option.map_eq_some_iff] at hp))
  all_goals (try (obtain ⟨w, hw1, hw2⟩ := hp))
  all_goals (try (cases hw2))
  all_goals (try (cases hp))
  all_goals first
    | exact ⟨rfl, hh⟩
    | (refine ⟨ha _ ?_, hh⟩; simp; done)
    | (refine ⟨vok_pair_l (b := _) (ha _ ?_), hh⟩; simp; done)
    | (refine ⟨vok_pair_r (a := _) (ha _ ?_), hh⟩; simp; done)
    | (refine ⟨vok_pair_l (vok_pair_r (a := _) (ha _ ?_)), hh⟩; simp; done)
    | exact ⟨vok_pair_l (ha _ List.mem_cons_self), hh⟩
    | exact ⟨vok_pair_r (ha _ List.mem_cons_self), hh⟩
    | exact ⟨vok_pair_l (vok_pair_r (ha _ List.mem_cons_self)), hh⟩
    | (refine ⟨?_, hh⟩; simp only [vok, Bool.and_eq_true]; exact ⟨ha _ (by simp), ha _ (by simp)⟩)
    | skip
  all_goals (try exact ⟨heapOK_get hh _ _ (List.mem_of_getElem? (filter_mem hw1)), hh⟩)
  all_goals (try (
    rename_i r i d
    refine ⟨?_, hh⟩
    cases hf : Option.filter (fun x => decide (i.toInt ≥ 0)) (h.get r)[i.toInt.toNat]? with
    | none => exact ha _ (by simp)
    | some x => exact heapOK_get hh _ _ (List.mem_of_getElem? (filter_mem hf))))

theorem prim_case14 (n : Nat) (name : String) (args : List Val) (h h' : DataHeap) (v : Val)
    (hp : (match args with
    | [.arr r, .int i, v] =>
      if i.toInt ≥ 0 ∧ i.toInt.toNat < (h.get r).length then
        some (.nil, h.set r ((h.get r).set i.toInt.toNat v))
      else none
    | _ => none) = some (v, h')) (ha : ∀ a ∈ args, vok n a = true) (hh : heapOK n h) :
    vok n v = true ∧ heapOK n h' := by
  repeat' (split at hp)
  all_goals (try (simp only [Option.map_eq_some_iff] at hp))
  all_goals (try (obtain ⟨w, hw1, hw2⟩ := hp))
  all_goals (try (cases hw2))
  all_goals (try (cases hp))
  all_goals first
    | exact ⟨rfl, hh⟩
    | (refine ⟨ha _ ?_, hh⟩; simp; done)
    | (refine ⟨vok_pair_l (b := _) (ha _ ?_), hh⟩; simp; done)
    | (refine ⟨vok_pair_r (a := _) (ha _ ?_), hh⟩; simp; done)
    | (refine ⟨vok_pair_l (vok_pair_r (a := _) (ha _ ?_)), hh⟩; simp; done)
    | exact ⟨vok_pair_l (ha _ List.mem_cons_self), hh⟩
    | exact ⟨vok_pair_r (ha _ List.mem_cons_self), hh⟩
    | exact ⟨vok_pair_l (vok_pair_r (ha _ List.mem_cons_self)), hh⟩
    | (refine ⟨?_, hh⟩; simp only [vok, Bool.and_eq_true]; exact ⟨ha _ (by simp), ha _ (by simp)⟩)
    | skip
  all_goals (try (
    refine ⟨rfl, heapOK_set hh _ _ ?_⟩
    intro x hx
    rcases List.mem_or_eq_of_mem_set hx with h1 | rfl
    · exact heapOK_get hh _ x h1
    · exact ha _ (by simp)))

theorem primOK : PrimOK := by
  intro n name args h h' v ha hh hp
  unfold prim at hp
  by_cases c0 : name = "+" ∨ name = "-" ∨ name = "*"
  · rw [if_pos c0] at hp
    exact prim_case0 n name args h h' v hp ha hh
  rw [if_neg c0] at hp
  by_cases c1 : name = "mod"
  · rw [if_pos c1] at hp
    exact prim_case1 n name args h h' v hp ha hh
  rw [if_neg c1] at hp
  by_cases c2 : isCmp name = true
  · rw [if_pos c2] at hp
    exact prim_case2 n name args h h' v hp ha hh
  rw [if_neg c2] at hp
  by_cases c3 : name = "not"
  · rw [if_pos c3] at hp
    exact prim_case3 n name args h h' v hp ha hh
  rw [if_neg c3] at hp
  by_cases c4 : name = "cons"
  · rw [if_pos c4] at hp
    exact prim_case4 n name args h h' v hp ha hh
  rw [if_neg c4] at hp
  by_cases c5 : name = "first"
  · rw [if_pos c5] at hp
    exact prim_case5 n name args h h' v hp ha hh
  rw [if_neg c5] at hp
  by_cases c6 : name = "rest"
  · rw [if_pos c6] at hp
    exact prim_case6 n name args h h' v hp ha hh
  rw [if_neg c6] at hp
  by_cases c7 : name = "second"
  · rw [if_pos c7] at hp
    exact prim_case7 n name args h h' v hp ha hh
  rw [if_neg c7] at hp
  by_cases c8 : name = "list"
  · rw [if_pos c8] at hp
    exact prim_case8 n name args h h' v hp ha hh
  rw [if_neg c8] at hp
  by_cases c9 : name = "array"
  · rw [if_pos c9] at hp
    exact prim_case9 n name args h h' v hp ha hh
  rw [if_neg c9] at hp
  by_cases c10 : name = "len"
  · rw [if_pos c10] at hp
    exact prim_case10 n name args h h' v hp ha hh
  rw [if_neg c10] at hp
  by_cases c11 : name = "append"
  · rw [if_pos c11] at hp
    exact prim_case11 n name args h h' v hp ha hh
  rw [if_neg c11] at hp
  by_cases c12 : name = "concat"
  · rw [if_pos c12] at hp
    exact prim_case12 n name args h h' v hp ha hh
  rw [if_neg c12] at hp
  by_cases c13 : name = "aget"
  · rw [if_pos c13] at hp
    exact prim_case13 n name args h h' v hp ha hh
  rw [if_neg c13] at hp
  by_cases c14 : name = "aset"
  · rw [if_pos c14] at hp
    exact prim_case14 n name args h h' v hp ha hh
  rw [if_neg c14] at hp
  cases hp

/-! ## `quoteE` -/

theorem vok_symV (n : Nat) (x : String) : vok n (symV x) = true := rfl

theorem vok_list_cons {n : Nat} {v : Val} {vs : List Val} (hv : vok n v = true) (hvs : ∀ x ∈ vs, vok n x = true) :
    ∀ x ∈ v :: vs, vok n x = true := by
  intro x hx
  rcases List.mem_cons.mp hx with rfl | hx
  · exact hv
  · exact hvs x hx

theorem vok_labelSym (n : Nat) (l : Option String) : ∀ x ∈ labelSym l, vok n x = true := by
  intro x hx
  cases l <;> simp [labelSym] at hx
  subst hx; rfl

theorem vok_paramSyms (n : Nat) (ps : List String) (rest : Option String) : ∀ x ∈ paramSyms ps rest, vok n x = true := by
  intro x hx
  simp only [paramSyms, List.mem_append, List.mem_map] at hx
  rcases hx with ⟨p, _, rfl⟩ | hx
  · rfl
  · cases rest <;> simp at hx
    rcases hx with rfl | rfl <;> rfl

theorem vok_alloc {n : Nat} {h : DataHeap} (hh : heapOK n h) (vs : List Val) (hv : ∀ v ∈ vs, vok n v = true) :
    vok n (h.alloc vs).1 = true ∧ heapOK n (h.alloc vs).2 := ⟨rfl, heapOK_alloc hh vs hv⟩

mutual
theorem quoteE_ok (n : Nat) : ∀ (e : Expr) (h : DataHeap), heapOK n h →
    vok n (quoteE e h).1 = true ∧ heapOK n (quoteE e h).2
  | .int v, h, hh => ⟨by simp [quoteE, intOfLit, vok], hh⟩
  | .bool b, h, hh => ⟨rfl, hh⟩
  | .str s, h, hh => ⟨rfl, hh⟩
  | .nilLit, h, hh => ⟨rfl, hh⟩
  | .sym x, h, hh => ⟨rfl, hh⟩
  | .arr es, h, hh => by
    have := quoteL_ok n es h hh
    simp only [quoteE]
    exact vok_alloc this.2 _ this.1
  | .call f args, h, hh => by
    have h1 := quoteE_ok n f h hh
    have h2 := quoteL_ok n args _ h1.2
    simp only [quoteE]
    exact ⟨vok_mkList _ (vok_list_cons h1.1 h2.1), h2.2⟩
  | .begin_ es, h, hh => by
    have h1 := quoteL_ok n es h hh
    simp only [quoteE]
    exact ⟨vok_mkList _ (vok_list_cons rfl h1.1), h1.2⟩
  | .def_ x e, h, hh => by
    have h1 := quoteE_ok n e h hh
    simp only [quoteE]
    exact ⟨vok_mkList _ (vok_list_cons rfl (vok_list_cons rfl (vok_list_cons h1.1 (fun _ hx => by cases hx)))), h1.2⟩
  | .set_ x e, h, hh => by
    have h1 := quoteE_ok n e h hh
    simp only [quoteE]
    exact ⟨vok_mkList _ (vok_list_cons rfl (vok_list_cons rfl (vok_list_cons h1.1 (fun _ hx => by cases hx)))), h1.2⟩
  | .cond arms d, h, hh => by
    have h1 := quoteArms_ok n arms h hh
    have h2 := quoteE_ok n d _ h1.2
    simp only [quoteE]
    refine ⟨vok_mkList _ (vok_list_cons rfl ?_), h2.2⟩
    intro x hx
    rcases List.mem_append.mp hx with hx | hx
    · exact h1.1 x hx
    · simp at hx; subst hx; exact h2.1
  | .and_ es, h, hh => by
    have h1 := quoteL_ok n es h hh
    simp only [quoteE]
    exact ⟨vok_mkList _ (vok_list_cons rfl h1.1), h1.2⟩
  | .or_ es, h, hh => by
    have h1 := quoteL_ok n es h hh
    simp only [quoteE]
    exact ⟨vok_mkList _ (vok_list_cons rfl h1.1), h1.2⟩
  | .let_ seq bs body, h, hh => by
    have h1 := quoteBinds_ok n bs h hh
    have h2 := vok_alloc h1.2 _ h1.1
    have h3 := quoteL_ok n body _ h2.2
    simp only [quoteE]
    exact ⟨vok_mkList _ (vok_list_cons rfl (vok_list_cons h2.1 h3.1)), h3.2⟩
  | .newScope es, h, hh => by
    have h1 := quoteL_ok n es h hh
    simp only [quoteE]
    exact ⟨vok_mkList _ (vok_list_cons rfl h1.1), h1.2⟩
  | .for_ label i t s body, h, hh => by
    have h1 := quoteE_ok n i h hh
    have h2 := quoteE_ok n t _ h1.2
    have h3 := quoteE_ok n s _ h2.2
    have h4 := vok_alloc h3.2 [(quoteE i h).1, (quoteE t (quoteE i h).2).1, (quoteE s (quoteE t (quoteE i h).2).2).1]
      (vok_list_cons h1.1 (vok_list_cons h2.1 (vok_list_cons h3.1 (fun _ hx => by cases hx))))
    have h5 := quoteL_ok n body _ h4.2
    simp only [quoteE]
    refine ⟨vok_mkList _ (vok_list_cons rfl ?_), h5.2⟩
    intro x hx
    rcases List.mem_append.mp hx with hx | hx
    · exact vok_labelSym n label x hx
    · exact vok_list_cons h4.1 h5.1 x hx
  | .break_ l, h, hh => by
    simp only [quoteE]
    exact ⟨vok_mkList _ (vok_list_cons rfl (vok_labelSym n l)), hh⟩
  | .continue_ l, h, hh => by
    simp only [quoteE]
    exact ⟨vok_mkList _ (vok_list_cons rfl (vok_labelSym n l)), hh⟩
  | .fn ps rest body, h, hh => by
    have h1 := vok_alloc hh _ (vok_paramSyms n ps rest)
    have h2 := quoteL_ok n body _ h1.2
    simp only [quoteE]
    exact ⟨vok_mkList _ (vok_list_cons rfl (vok_list_cons h1.1 h2.1)), h2.2⟩
  | .defn name ps rest body, h, hh => by
    have h1 := vok_alloc hh _ (vok_paramSyms n ps rest)
    have h2 := quoteL_ok n body _ h1.2
    simp only [quoteE]
    exact ⟨vok_mkList _ (vok_list_cons rfl (vok_list_cons rfl (vok_list_cons h1.1 h2.1))), h2.2⟩
  | .assign _ _, h, hh => ⟨rfl, hh⟩
  | .bad _, h, hh => ⟨rfl, hh⟩
theorem quoteL_ok (n : Nat) : ∀ (es : List Expr) (h : DataHeap), heapOK n h →
    (∀ x ∈ (quoteL es h).1, vok n x = true) ∧ heapOK n (quoteL es h).2
  | [], h, hh => ⟨fun _ hx => by simp [quoteL] at hx, hh⟩
  | e :: es, h, hh => by
    have h1 := quoteE_ok n e h hh
    have h2 := quoteL_ok n es _ h1.2
    simp only [quoteL]
    exact ⟨vok_list_cons h1.1 h2.1, h2.2⟩
theorem quoteArms_ok (n : Nat) : ∀ (arms : List (Expr × Expr)) (h : DataHeap), heapOK n h →
    (∀ x ∈ (quoteArms arms h).1, vok n x = true) ∧ heapOK n (quoteArms arms h).2
  | [], h, hh => ⟨fun _ hx => by simp [quoteArms] at hx, hh⟩
  | (c, b) :: r, h, hh => by
    have h1 := quoteE_ok n c h hh
    have h2 := quoteE_ok n b _ h1.2
    have h3 := quoteArms_ok n r _ h2.2
    simp only [quoteArms]
    exact ⟨vok_list_cons h1.1 (vok_list_cons h2.1 h3.1), h3.2⟩
theorem quoteBinds_ok (n : Nat) : ∀ (bs : List (String × Expr)) (h : DataHeap), heapOK n h →
    (∀ x ∈ (quoteBinds bs h).1, vok n x = true) ∧ heapOK n (quoteBinds bs h).2
  | [], h, hh => ⟨fun _ hx => by simp [quoteBinds] at hx, hh⟩
  | (x, e) :: r, h, hh => by
    have h1 := quoteE_ok n e h hh
    have h2 := quoteBinds_ok n r _ h1.2
    simp only [quoteBinds]
    exact ⟨vok_list_cons rfl (vok_list_cons h1.1 h2.1), h2.2⟩
end

theorem quoteOK : QuoteOK := by
  intro n e h h' v hh hq
  have := quoteE_ok n e h hh
  rw [hq] at this
  exact this

/-- **The calling contract, unconditionally.** -/
theorem allSpec' : ∀ n, AllSpec n := allSpec primOK quoteOK

end ZygoVerif.RunInv
