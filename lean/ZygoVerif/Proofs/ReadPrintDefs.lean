/-
The domain of the `read (print v) = v` theorem and the token image of a printed value.

`okV` — the values covered by the proof: 64-bit integers, characters (valid code points),
strings (any runes), uint64, finite floats (under the law `FloatLaw`), booleans, symbols whose name is made of runes with no meaning of their own
to the lexer and which `DecodeAtom` classifies as a symbol (`symOK`: "a name the reader reads as
a symbol"), lists of such values with or without a dotted tail, arrays of such values; nested
to any depth. `nil` is covered only as the end of a list (known finding: the text `nil` reads
back as the symbol `nil`); NaN and ±Inf are covered by the `rt` channel only.
`toks` — the tokens the lexer produces for the printed text.
-/
import ZygoVerif.Proofs.LexNormal
import ZygoVerif.Proofs.LexFloat
import ZygoVerif.Model.PrintData
namespace ZygoVerif.ReadPrint
open ZygoVerif ZygoVerif.Lexer ZygoVerif.PrintData

/-- a name the reader reads as a plain symbol -/
def symOK (n : List Char) : Bool :=
  !n.isEmpty && n.all (fun c => !isSpecial c) &&
  (match decodeAtom n with
   | .ok t => t == ⟨.symbol, n⟩
   | .error _ => false)

def okAtom : Sexp → Bool
  | .int v => decide (-(2 : Int) ^ 63 ≤ v ∧ v < 2 ^ 63)
  | .uint v => decide (v < 2 ^ 64)
  | .float b _ => isFiniteBits b
  | .char v => v.isValidChar
  | .str _ raw => !raw
  | .bool _ => true
  | .sym n ct dot => !ct && !dot && symOK n
  | _ => false

mutual
def okV : Sexp → Bool
  | .pair h t => okV h && okTail t
  | .array es inf => !inf && okList es
  | .int v => okAtom (.int v)
  | .uint v => okAtom (.uint v)
  | .float b s => okAtom (.float b s)
  | .char v => okAtom (.char v)
  | .str s raw => okAtom (.str s raw)
  | .sym n a b => okAtom (.sym n a b)
  | .bool b => okAtom (.bool b)
  | .comment _ _ => false
  | .comma => false
  | .semicolon => false
  | .null => false
  | .endS => false
  | .emptyHash => false
/-- the tail of a list: more elements, the end, or a dotted value (an atom or an array) -/
def okTail : Sexp → Bool
  | .pair h t => okV h && okTail t
  | .null => true
  | .array es inf => !inf && okList es
  | .int v => okAtom (.int v)
  | .uint v => okAtom (.uint v)
  | .float b s => okAtom (.float b s)
  | .char v => okAtom (.char v)
  | .str s raw => okAtom (.str s raw)
  | .sym n a b => okAtom (.sym n a b)
  | .bool b => okAtom (.bool b)
  | .comment _ _ => false
  | .comma => false
  | .semicolon => false
  | .endS => false
  | .emptyHash => false
def okList : List Sexp → Bool
  | [] => true
  | e :: r => okV e && okList r
end

/-- the token of an atom -/
def atomTok (ff : FloatFmt) : Sexp → Token
  | .int v => ⟨.decimal, itoa v⟩
  | .uint v => ⟨.uint64, natDec v ++ "ULL".toList⟩
  | .float b sci => ⟨.float, printFloat ff b sci⟩
  | .char v => ⟨.char, [Char.ofNat v]⟩
  | .str s _ => ⟨.string, s⟩
  | .bool b => ⟨.bool, if b then "true".toList else "false".toList⟩
  | .sym n _ _ => ⟨.symbol, n⟩
  | _ => Token.zero

def tLP : Token := ⟨.lparen, []⟩
def tRP : Token := ⟨.rparen, []⟩
def tLS : Token := ⟨.lsquare, []⟩
def tRS : Token := ⟨.rsquare, []⟩
def tBS : Token := ⟨.backslash, []⟩

mutual
/-- the tokens of the printed value -/
def toks (ff : FloatFmt) : Sexp → List Token
  | .pair h t => tLP :: (toks ff h ++ toksRest ff t)
  | .array es _ => tLS :: (toksElems ff es ++ [tRS])
  | .int v => [atomTok ff (.int v)]
  | .uint v => [atomTok ff (.uint v)]
  | .float b s => [atomTok ff (.float b s)]
  | .char v => [atomTok ff (.char v)]
  | .str s raw => [atomTok ff (.str s raw)]
  | .sym n a b => [atomTok ff (.sym n a b)]
  | .bool b => [atomTok ff (.bool b)]
  | .comment t b => [atomTok ff (.comment t b)]
  | .comma => [atomTok ff .comma]
  | .semicolon => [atomTok ff .semicolon]
  | .null => [atomTok ff .null]
  | .endS => [atomTok ff .endS]
  | .emptyHash => [atomTok ff .emptyHash]
/-- the tokens of the rest of a list after a head, including the closing bracket -/
def toksRest (ff : FloatFmt) : Sexp → List Token
  | .pair h t => toks ff h ++ toksRest ff t
  | .null => [tRP]
  | .array es _ => tBS :: (tLS :: (toksElems ff es ++ [tRS])) ++ [tRP]
  | .int v => [tBS, atomTok ff (.int v), tRP]
  | .uint v => [tBS, atomTok ff (.uint v), tRP]
  | .float b s => [tBS, atomTok ff (.float b s), tRP]
  | .char v => [tBS, atomTok ff (.char v), tRP]
  | .str s raw => [tBS, atomTok ff (.str s raw), tRP]
  | .sym n a b => [tBS, atomTok ff (.sym n a b), tRP]
  | .bool b => [tBS, atomTok ff (.bool b), tRP]
  | .comment t b => [tBS, atomTok ff (.comment t b), tRP]
  | .comma => [tBS, atomTok ff .comma, tRP]
  | .semicolon => [tBS, atomTok ff .semicolon, tRP]
  | .endS => [tBS, atomTok ff .endS, tRP]
  | .emptyHash => [tBS, atomTok ff .emptyHash, tRP]
def toksElems (ff : FloatFmt) : List Sexp → List Token
  | [] => []
  | e :: r => toks ff e ++ toksElems ff r
end

end ZygoVerif.ReadPrint
