/-
The domain of the `read (print v) = v` theorem and the token image of a printed value.

`okV` — the values covered by the proof: 64-bit integers, characters (valid code points),
strings (any runes), booleans, symbols whose name is made of runes with no meaning of their own
to the lexer and which `DecodeAtom` classifies as a symbol (`symOK`: "a name the reader reads as
a symbol"), lists of such values with or without a dotted tail, arrays of such values; nested
to any depth. `nil` is covered only as the end of a list (known finding: the text `nil` reads
back as the symbol `nil`); floats and uint64 have their own theorems (Props/C12).
`toks` — the tokens the lexer produces for the printed text.
-/
import ZygoVerif.Proofs.LexNormal
import ZygoVerif.Model.PrintData
namespace ZygoVerif.ReadPrint
open ZygoVerif ZygoVerif.Lexer ZygoVerif.PrintData

/-- a name the reader reads as a plain symbol -/
def symOK (n : List Char) : Bool :=
  !n.isEmpty && n.all (fun c => !isSpecial c) &&
  (match decodeAtom n with
   | .ok t => t == ⟨.symbol, n⟩
   | .error _ => false)

def okAtom : Sexp → Bool
  | .int v => decide (-(2 : Int) ^ 63 ≤ v ∧ v < 2 ^ 63)
  | .char v => v.isValidChar
  | .str _ raw => !raw
  | .bool _ => true
  | .sym n ct dot => !ct && !dot && symOK n
  | _ => false

mutual
def okV : Sexp → Bool
  | .pair h t => okV h && okTail t
  | .array es inf => !inf && okList es
  | .int v => okAtom (.int v)
  | .uint v => okAtom (.uint v)
  | .float b s => okAtom (.float b s)
  | .char v => okAtom (.char v)
  | .str s raw => okAtom (.str s raw)
  | .sym n a b => okAtom (.sym n a b)
  | .bool b => okAtom (.bool b)
  | .comment _ _ => false
  | .comma => false
  | .semicolon => false
  | .null => false
  | .endS => false
  | .emptyHash => false
/-- the tail of a list: more elements, the end, or a dotted value (an atom or an array) -/
def okTail : Sexp → Bool
  | .pair h t => okV h && okTail t
  | .null => true
  | .array es inf => !inf && okList es
  | .int v => okAtom (.int v)
  | .uint v => okAtom (.uint v)
  | .float b s => okAtom (.float b s)
  | .char v => okAtom (.char v)
  | .str s raw => okAtom (.str s raw)
  | .sym n a b => okAtom (.sym n a b)
  | .bool b => okAtom (.bool b)
  | .comment _ _ => false
  | .comma => false
  | .semicolon => false
  | .endS => false
  | .emptyHash => false
def okList : List Sexp → Bool
  | [] => true
  | e :: r => okV e && okList r
end

/-- the token of an atom -/
def atomTok : Sexp → Token
  | .int v => ⟨.decimal, itoa v⟩
  | .char v => ⟨.char, [Char.ofNat v]⟩
  | .str s _ => ⟨.string, s⟩
  | .bool b => ⟨.bool, if b then "true".toList else "false".toList⟩
  | .sym n _ _ => ⟨.symbol, n⟩
  | _ => Token.zero

def tLP : Token := ⟨.lparen, []⟩
def tRP : Token := ⟨.rparen, []⟩
def tLS : Token := ⟨.lsquare, []⟩
def tRS : Token := ⟨.rsquare, []⟩
def tBS : Token := ⟨.backslash, []⟩

mutual
/-- the tokens of the printed value -/
def toks : Sexp → List Token
  | .pair h t => tLP :: (toks h ++ toksRest t)
  | .array es _ => tLS :: (toksElems es ++ [tRS])
  | .int v => [atomTok (.int v)]
  | .uint v => [atomTok (.uint v)]
  | .float b s => [atomTok (.float b s)]
  | .char v => [atomTok (.char v)]
  | .str s raw => [atomTok (.str s raw)]
  | .sym n a b => [atomTok (.sym n a b)]
  | .bool b => [atomTok (.bool b)]
  | .comment t b => [atomTok (.comment t b)]
  | .comma => [atomTok .comma]
  | .semicolon => [atomTok .semicolon]
  | .null => [atomTok .null]
  | .endS => [atomTok .endS]
  | .emptyHash => [atomTok .emptyHash]
/-- the tokens of the rest of a list after a head, including the closing bracket -/
def toksRest : Sexp → List Token
  | .pair h t => toks h ++ toksRest t
  | .null => [tRP]
  | .array es _ => tBS :: (tLS :: (toksElems es ++ [tRS])) ++ [tRP]
  | .int v => [tBS, atomTok (.int v), tRP]
  | .uint v => [tBS, atomTok (.uint v), tRP]
  | .float b s => [tBS, atomTok (.float b s), tRP]
  | .char v => [tBS, atomTok (.char v), tRP]
  | .str s raw => [tBS, atomTok (.str s raw), tRP]
  | .sym n a b => [tBS, atomTok (.sym n a b), tRP]
  | .bool b => [tBS, atomTok (.bool b), tRP]
  | .comment t b => [tBS, atomTok (.comment t b), tRP]
  | .comma => [tBS, atomTok .comma, tRP]
  | .semicolon => [tBS, atomTok .semicolon, tRP]
  | .endS => [tBS, atomTok .endS, tRP]
  | .emptyHash => [tBS, atomTok .emptyHash, tRP]
def toksElems : List Sexp → List Token
  | [] => []
  | e :: r => toks e ++ toksElems r
end

end ZygoVerif.ReadPrint
