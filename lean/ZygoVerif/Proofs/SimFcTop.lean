/-
C02, execution half — Stage D, top level: a program text of the fragment Fc (Fv with binder names
that are not builtin names, plus calls of first-order builtins), loaded and run by the VM model
and evaluated by the reference evaluator, from the initial states.
-/
import ZygoVerif.Proofs.SimFc
import ZygoVerif.Proofs.SimFvTop
set_option linter.unusedSimpArgs false
namespace ZygoVerif.Sim
open ZygoVerif.Core ZygoVerif.VM

/-- `Run` over a segment at the end of the current function that lands with a value -/
theorem run_of_landsE {s s' : St} {pre code : List Instr} {v : Val} (h : Seg s pre code [])
    (hr : ReachX s s') (hl : Lands code.length v s s') :
    ∃ N, ∀ fuel, N ≤ fuel → (run fuel).run s = (.ok v, s'.jmp s'.pc s.data) := by
  obtain ⟨K, m, hr⟩ := hr
  refine ⟨K + m + 2, fun fuel hf => ?_⟩
  obtain ⟨f, rfl⟩ : ∃ f, fuel = f + 1 := ⟨fuel - 1, by omega⟩
  have hfin : (runLoop f (capOf s)).run s = (.ok (), s') :=
    hr.finish (Or.inr (by
      rw [h.total' hl.fn, hl.pc, h.pc]
      simp only [List.length_nil]; omega)) f (by omega) _
  rw [run]
  simp only [run_bind, run_capture, hfin, run_get, hl.data, List.isEmpty_cons, Bool.false_eq_true, if_false,
    run_pure, run_popData]
  rfl

theorem globals_initSt : Globals Ref.initSt := by
  intro h hh
  refine ⟨?_, fun i hi => ?_⟩
  · revert h; decide
  · cases i with
    | zero => omega
    | succ i => rfl

theorem clean_of_lookup {x : String} {v : Val} : ∀ (l : List (String × Val)), (∀ p ∈ l, Clean p.2) →
    List.lookup x l = some v → Clean v
  | [], _, h => by simp at h
  | (k, w) :: l, hl, h => by
    rw [List.lookup_cons] at h
    split at h
    · injection h with h; subst h; exact hl (k, w) List.mem_cons_self
    · exact clean_of_lookup l (fun p hp => hl p (List.mem_cons_of_mem _ hp)) h

theorem cleanSt_initSt : CleanSt Ref.initSt := by
  refine ⟨fun i x v hv => ?_, fun r y hy => ?_⟩
  · cases i with
    | zero =>
      refine clean_of_lookup _ (fun p hp => ?_) hv
      simp only [Ref.initSt, List.getD_cons_zero, List.mem_append, List.mem_cons, List.mem_map, List.not_mem_nil,
        or_false] at hp
      rcases hp with (rfl | rfl) | ⟨n, _, rfl⟩ <;> trivial
    | succ i => exact absurd hv (by show (List.lookup x ([] : List (String × Val))) ≠ some v; simp)
  · exact absurd hy (by show y ∉ ([] : List Val); simp)

theorem relC_initSt : RelC initSt Ref.initSt 0 :=
  ⟨rel_initSt.toRelCore, FnChainOk.root 0 (by decide) rfl ⟨[], rfl⟩, globals_initSt, cleanSt_initSt⟩

/-- the state after `LoadExpressions` when the generator also registered loop records -/
def loaded (s : St) (gs' : GS) (code : List Instr) : St :=
  loadState (clearTrace s) (withLoops (clearTrace s) gs') code

theorem fnOf_loaded (s : St) (gs' : GS) (code : List Instr) (id : Nat) :
    fnOf (loaded s gs' code) id
      = ((List.set s.fns mainFn { fnOf s mainFn with
          code := (fnOf s mainFn).code ++ (if (clearTrace s).pc ≥ curSize (clearTrace s) then [] else [.pop]) ++ code })[id]?).getD {} := by
  show (List.set s.fns mainFn _).getD id {} = _
  rw [List.getD_eq_getElem?_getD]; rfl

theorem seg_loaded {s : St} (h : AtRest s) (gs' : GS) (code : List Instr) :
    Seg (loaded s gs' code) (fnOf s mainFn).code code [] := by
  have hsz : curSize (clearTrace s) = ((fnOf s mainFn).code.length : Int) := by
    show (if (fnOf s s.curfunc).user then (0 : Int) else ((fnOf s s.curfunc).code.length : Int)) = _
    rw [h.cur, h.user]; rfl
  have hpre : (if (clearTrace s).pc ≥ curSize (clearTrace s) then ([] : List Instr) else [.pop]) = [] :=
    if_pos (by rw [hsz]; show s.pc ≥ _; rw [h.pc]; exact Int.le_refl _)
  have hf : fnOf (loaded s gs' code) (loaded s gs' code).curfunc
      = { fnOf s mainFn with code := (fnOf s mainFn).code ++ code } := by
    show fnOf (loaded s gs' code) mainFn = _
    rw [fnOf_loaded, hpre]
    simp only [List.getElem?_set_self h.main, Option.getD_some, List.append_nil]
  exact ⟨by rw [hf]; exact h.user, by rw [hf]; simp, h.pc⟩

/-- loading a text keeps the relation -/
theorem relC_loaded {s : St} {rs : Ref.St} (h : RelC s rs 0) (hs : AtRest s) (gs' : GS) (code : List Instr) :
    RelC (loaded s gs' code) { rs with trace := [] } 0 := by
  have hpar : ∀ id, (fnOf (loaded s gs' code) id).parent = (fnOf s id).parent := by
    intro id
    rw [fnOf_loaded, List.getElem?_set]
    by_cases hid : mainFn = id
    · subst hid; simp only [hs.main, if_true, Option.getD_some]
    · simp only [hid, if_false]; rw [← List.getD_eq_getElem?_getD]; rfl
  have hclo : ∀ id, (fnOf (loaded s gs' code) id).closing = (fnOf s id).closing := by
    intro id
    rw [fnOf_loaded, List.getElem?_set]
    by_cases hid : mainFn = id
    · subst hid; simp only [hs.main, if_true, Option.getD_some]
    · simp only [hid, if_false]; rw [← List.getD_eq_getElem?_getD]; rfl
  refine ⟨⟨h.len, h.vars, h.nofn, h.chain, h.heap, rfl⟩, ?_, h.globals, h.clean⟩
  have hcur : (loaded s gs' code).curfunc = s.curfunc := hs.cur.symm
  rw [hcur]
  exact h.fnchain.congr (s := s) (s' := loaded s gs' code) rfl
    (by show (List.set s.fns mainFn _).length = _; simp) hpar hclo

/-- what `runText` must report for a reference result -/
def TextOut (out : VM.Outcome × St × Bool) (res : Ref.R Val) : Prop :=
  match res with
  | .ok v rs' => ∃ sf d, out = (.done "ok" (pr rs'.heap v) rs'.trace d, sf, true)
  | .err rs' => ∃ sf d, out = (.done "err" "-" rs'.trace d, sf, true)
  | .timeout => True
  | .brk _ _ => False
  | .cont _ _ => False

/-- **A non-empty Fc program text, loaded and run**, from a resting VM state related to the
reference state: with enough fuel, `runText` reports class `ok` with the value and trace of the
reference evaluator, or class `err` with the reference trace — whichever the reference yields. -/
theorem runText_Fc (s : St) (rs : Ref.St) (p : List Expr) (hne : p ≠ []) (hp : FcList p = true)
    (hs : AtRest s) (hrel : RelC s rs 0) (n : Nat) :
    ∃ N, ∀ fuel, N ≤ fuel → TextOut (runText fuel p s) (Ref.evalBegin n p 0 { rs with trace := [] }) := by
  obtain ⟨code, t, gs', hc, -, hfns⟩ := compileBegin_total_Fc p hne hp (isFnScope (clearTrace s)) {}
    { fns := s.fns, loops := s.loops, loopstack := s.loopstack, live := s.linear } rfl
  have hload : (runGen (compileBegin (isFnScope (clearTrace s)) {} p)).run (clearTrace s)
      = (.ok (code, t), withLoops (clearTrace s) gs') := run_runGen_any _ (clearTrace s) _ gs' hc hfns.fns
  have hseg := seg_loaded hs gs' code
  have hrel' := relC_loaded hrel hs gs' code
  have hsim := segment_Fc_begin p hne hp _ {} rfl _ code t _ hc _ _ 0 _ [] hrel' hseg n
  cases hres : Ref.evalBegin n p 0 { rs with trace := [] } with
  | ok v rs' =>
    rw [hres] at hsim
    obtain ⟨s1, r, l, rel1, -, -, -⟩ := hsim
    obtain ⟨N, hN⟩ := run_of_landsE hseg r l
    refine ⟨N, fun fuel hf => ?_⟩
    refine ⟨s1.jmp s1.pc (loaded s gs' code).data,
      depths (s1.jmp s1.pc (loaded s gs' code).data), ?_⟩
    have e : loadState (clearTrace s) (withLoops (clearTrace s) gs') code = loaded s gs' code := rfl
    rw [runText_eq]
    simp only [hload, e, hN fuel hf]
    rw [show (s1.jmp s1.pc (loaded s gs' code).data).heap = rs'.heap from rel1.heap,
      show (s1.jmp s1.pc (loaded s gs' code).data).trace = rs'.trace from rel1.trace]
  | err rs' =>
    rw [hres] at hsim
    obtain ⟨N, hN⟩ := run_of_failsE hsim
    refine ⟨N, fun fuel hf => ?_⟩
    obtain ⟨sf, hrun, htr⟩ := hN fuel hf
    refine ⟨sf, depths sf, ?_⟩
    have e : loadState (clearTrace s) (withLoops (clearTrace s) gs') code = loaded s gs' code := rfl
    rw [runText_eq]
    simp only [hload, e, hrun, htr]
  | timeout => exact ⟨0, fun _ _ => trivial⟩
  | brk l rs' => rw [hres] at hsim; exact hsim.elim
  | cont l rs' => rw [hres] at hsim; exact hsim.elim

end ZygoVerif.Sim
