/-
Specification for C17, written from the property text, over *observations* (views) of
record instances — it mentions no interpreter state and none of the model's functions.

  "Once a struct type is declared, no operation can leave an instance with a field that was
   not declared or with a value whose type differs from the field's declared type; nil and
   the empty slice are accepted where the language says so. A rejected update reports an
   error and leaves the instance unchanged, and instances keep the definition that was in
   force when they were created."

* A declaration table maps a definition (generation) to its declared fields.
* An instance view says which definition the instance was created under (`none`: an untyped
  hash, which the property does not constrain), and lists its fields: key and, per value,
  whether it is nil and the language's own type of the value (`none` = nil type). The type
  of a record value is the definition *it* carries ("instances keep the definition…").
* `WellTyped`: every field of every instance is a declared (symbol-named) field and its
  value is accepted by the declared type: nil anywhere, the empty slice in any slice-typed
  field, otherwise exactly the declared type.
-/
import ZygoVerif.Model.RecTypes
namespace ZygoVerif.Rec.Spec

structure ValView where
  isNil : Bool
  ty : Option Ty
  /-- printable identity of the value (used only to compare observations) -/
  digest : String
  deriving Repr, DecidableEq

structure InstView where
  id : String
  tname : TyName
  defGen : Option Nat
  fields : List (Key × ValView)
  deriving Repr, DecidableEq

abbrev Decls := List (Nat × List (Nat × Ty))

/-- nil and the empty slice "where the language says so": nil in every field, the empty
slice in every field whose declared type is a slice. -/
def Accepts (declared : Ty) (v : ValView) : Prop :=
  v.isNil = true ∨ v.ty = some declared ∨ (v.ty = some ⟨.emptyArr, 0⟩ ∧ declared.name.isSliceName = true)

def FieldOK (fs : List (Nat × Ty)) (kv : Key × ValView) : Prop :=
  ∃ f dt, kv.1 = Key.sym f ∧ fs.lookup f = some dt ∧ Accepts dt kv.2

def WellTypedInst (decls : Decls) (i : InstView) : Prop :=
  match i.defGen with
  | none => True
  | some g => ∃ fs, decls.lookup g = some fs ∧ ∀ kv ∈ i.fields, FieldOK fs kv

def WellTyped (decls : Decls) (snap : List InstView) : Prop :=
  ∀ i ∈ snap, WellTypedInst decls i

/-- "A rejected update … leaves the instance unchanged": every instance observed before is
observed identically after. -/
def Unchanged (before after : List InstView) : Prop := before = after

/-! Executable versions (used by the driver to judge observations of the real code). -/

def acceptsB (declared : Ty) (v : ValView) : Bool :=
  v.isNil || v.ty == some declared || (v.ty == some ⟨.emptyArr, 0⟩ && declared.name.isSliceName)

def fieldOKB (fs : List (Nat × Ty)) (kv : Key × ValView) : Bool :=
  match kv.1 with
  | .sym f => match fs.lookup f with
    | some dt => acceptsB dt kv.2
    | none => false
  | _ => false

def wellTypedInstB (decls : Decls) (i : InstView) : Bool :=
  match i.defGen with
  | none => true
  | some g => match decls.lookup g with
    | some fs => i.fields.all (fieldOKB fs)
    | none => false

def wellTypedB (decls : Decls) (snap : List InstView) : Bool := snap.all (wellTypedInstB decls)

theorem acceptsB_iff (d : Ty) (v : ValView) : acceptsB d v = true ↔ Accepts d v := by
  simp [acceptsB, Accepts, Bool.or_eq_true, Bool.and_eq_true, or_assoc]

theorem fieldOKB_iff (fs : List (Nat × Ty)) (kv : Key × ValView) : fieldOKB fs kv = true ↔ FieldOK fs kv := by
  unfold fieldOKB FieldOK
  split
  · rename_i f hk
    split
    · rename_i dt hl
      constructor
      · intro h; exact ⟨f, dt, hk, hl, (acceptsB_iff _ _).1 h⟩
      · rintro ⟨f', dt', hk', hl', ha⟩
        rw [hk] at hk'; cases hk'
        rw [hl] at hl'; cases hl'
        exact (acceptsB_iff _ _).2 ha
    · rename_i hl
      constructor
      · intro h; cases h
      · rintro ⟨f', dt', hk', hl', _⟩
        rw [hk] at hk'; cases hk'
        rw [hl] at hl'; cases hl'
  · rename_i hk
    constructor
    · intro h; cases h
    · rintro ⟨f', dt', hk', _, _⟩
      exact absurd hk' (hk f')

theorem wellTypedInstB_iff (decls : Decls) (i : InstView) : wellTypedInstB decls i = true ↔ WellTypedInst decls i := by
  unfold wellTypedInstB WellTypedInst
  split
  · simp
  · rename_i g hg
    split
    · rename_i fs hl
      constructor
      · intro h
        refine ⟨fs, hl, ?_⟩
        intro kv hkv
        exact (fieldOKB_iff _ _).1 (List.all_eq_true.1 h kv hkv)
      · rintro ⟨fs', hl', h⟩
        rw [hl] at hl'; cases hl'
        exact List.all_eq_true.2 (fun kv hkv => (fieldOKB_iff _ _).2 (h kv hkv))
    · rename_i hl
      constructor
      · intro h; cases h
      · rintro ⟨fs', hl', _⟩
        rw [hl] at hl'; cases hl'

theorem wellTypedB_iff (decls : Decls) (snap : List InstView) : wellTypedB decls snap = true ↔ WellTyped decls snap := by
  unfold wellTypedB WellTyped
  rw [List.all_eq_true]
  exact forall_congr' (fun i => forall_congr' (fun _ => wellTypedInstB_iff decls i))

/-! The declaration table as the *user wrote it*: resolved from the declaration steps of a
history alone. A name refers to the latest declaration of that name made by an earlier step;
inside its own declaration it refers to the (empty) placeholder. -/

def resolveTy (latest : List (Nat × Nat)) : TExpr → Option Ty
  | .base b => some ⟨b, 0⟩
  | .ref n => (latest.lookup n).map (fun g => ⟨.struct n, g⟩)
  | .unbound => none
  | .slice e => (resolveTy latest e).map (fun t => ⟨.slice t.name, 0⟩)
  | .ptr e => (resolveTy latest e).map (fun t => ⟨.ptr t.name, 0⟩)

def resolveAll (latest : List (Nat × Nat)) : List (Nat × TExpr) → Option (List (Nat × Ty))
  | [] => some []
  | (f, e) :: rest =>
    match resolveTy latest e, resolveAll latest rest with
    | some t, some r => some ((f, t) :: r)
    | _, _ => none

/-- `steps`: for every step of the history, `some (name, fields)` when it is a declaration.
Result: generation ↦ declared fields. -/
def declTable : Nat → List (Nat × Nat) → List (Option (Nat × List (Nat × TExpr))) → Decls
  | _, _, [] => []
  | k, latest, none :: rest => declTable (k + 1) latest rest
  | k, latest, some (n, fields) :: rest =>
    let l1 := (n, placeholderGen k) :: latest
    match resolveAll l1 fields with
    | none => (placeholderGen k, []) :: declTable (k + 1) l1 rest
    | some fs => (placeholderGen k, []) :: (finalGen k, fs) :: declTable (k + 1) ((n, finalGen k) :: l1) rest

end ZygoVerif.Rec.Spec
