/-
Spec side of C11, written from the property text: which values the property speaks about
(`Dom`, `RtDom`), which JSON data such a value denotes (`denote`), and what "an equal
value, numbers compared by value" means after a round trip (`norm`).

Only the value *type* `V` of Model/Print.lean is used (with its float-text shape);
nothing of the encoder. Core Lean only.
-/
import ZygoVerif.Model.Print
import ZygoVerif.Spec.Rfc8259
namespace ZygoVerif.JsonData
open ZygoVerif.Print ZygoVerif.Rfc8259

def atype : Bytes := asciiBytes "Atype"
def zKeyOrder : Bytes := asciiBytes "zKeyOrder"

/-- well-formed decimal text of a finite float: digits are digits, the integer part is
non-empty without a superfluous leading zero, an exponent has digits -/
def floatTextOk : FloatText → Bool
  | .raw _ => false
  | .dec _ ip fp ex =>
    ip.all (· < 10) && fp.all (· < 10) && !ip.isEmpty && !(ip.head? == some 0 && ip.length > 1)
      && (match ex with
          | none => true
          | some (_, ed) => ed.all (· < 10) && !ed.isEmpty)

/-- the JSON number a finite float's decimal text denotes (the property's "numbers
compared by value": a float is identified with its shortest decimal, `jtext`) -/
def floatNumber : FloatText → JNumber
  | .raw _ => default
  | .dec neg ip fp ex =>
    let e : Int := match ex with
      | none => 0
      | some (eneg, ed) => if eneg then - (digitsVal ed : Int) else digitsVal ed
    -- a float never denotes an integer *spelling*: it is written with a fraction or an exponent
    JNumber.make neg (digitsVal (ip ++ fp)) (e - (fp.length : Int)) false

/-- the member name a key stands for: the text of a string or the name of a symbol -/
def keyName? : V → Option Bytes
  | .str s _ => some s
  | .sym n => some n
  | _ => none

mutual
/-- The domain of the well-formedness clause: nested records, hashes and arrays over
strings (valid UTF-8, i.e. any sequence of Unicode scalar values), symbols, integers,
finite floats, booleans and nil, under symbol or string keys. -/
def inDom : V → Bool
  | .nil => true
  | .bool _ => true
  | .int _ => true
  | .flt f => floatTextOk f.jtext
  | .str s _ => validUtf8 s
  | .sym n => validUtf8 n
  | .arr l => inDomList l
  | .hash tn es => validUtf8 tn && inDomEntries es
  | .uint _ => false
  | .char _ => false
  | .list _ => false
def inDomList : List V → Bool
  | [] => true
  | a :: r => inDom a && inDomList r
def inDomEntries : List (V × V) → Bool
  | [] => true
  | (k, v) :: r =>
    (match k with
     | .str s _ => validUtf8 s
     | .sym n => validUtf8 n
     | _ => false) && inDom v && inDomEntries r
end

def keyNameD (k : V) : Bytes := (keyName? k).getD []

def denoteKeys : List (V × V) → List JValue
  | [] => []
  | (k, _) :: r => .str (keyNameD k) :: denoteKeys r

mutual
/-- The JSON data a value denotes. A hash or record is an object that carries its type
name under `Atype`, its fields in order, and (when it has fields) the field order again
under `zKeyOrder` (the representation the property's "same record type names and the same
field order" refers to). -/
def denote : V → JValue
  | .nil => .null
  | .bool b => .bool b
  | .int n => .num (JNumber.make (decide (n < 0)) n.natAbs 0 true)
  | .flt f => .num (floatNumber f.jtext)
  | .str s _ => .str s
  | .sym n => .str n
  | .arr l => .arr (denoteList l)
  | .hash tn es =>
    .obj ((atype, .str tn) :: (denoteEntries es ++
      (if es.isEmpty then [] else [(zKeyOrder, .arr (denoteKeys es))])))
  | .uint _ => .null
  | .char _ => .null
  | .list _ => .null
def denoteList : List V → List JValue
  | [] => []
  | a :: r => denote a :: denoteList r
def denoteEntries : List (V × V) → List (Bytes × JValue)
  | [] => []
  | (k, v) :: r => (keyNameD k, denote v) :: denoteEntries r
end

/-! ### round trip -/

def int64Min : Int := -9223372036854775808
def int64Max : Int := 9223372036854775807

/-- symbol-key names of the entries -/
def entryKeys : List (V × V) → List Bytes
  | [] => []
  | (k, _) :: r => keyNameD k :: entryKeys r

def allSymKeys : List (V × V) → Bool
  | [] => true
  | (.sym _, _) :: r => allSymKeys r
  | _ :: _ => false

def nodupB : List Bytes → Bool
  | [] => true
  | a :: r => !r.contains a && nodupB r

mutual
/-- The domain of the round-trip clause: `Dom`, integers within int64, hashes under
pairwise distinct symbol keys other than the two reserved names, and no bare symbol as a
value (a symbol is encoded as a string). -/
def inRtDom : V → Bool
  | .nil => true
  | .bool _ => true
  | .int n => decide (int64Min ≤ n ∧ n ≤ int64Max)
  | .flt f => floatTextOk f.jtext
  | .str s _ => validUtf8 s
  | .arr l => inRtDomList l
  | .hash tn es => validUtf8 tn && allSymKeys es && nodupB (entryKeys es)
      && !(entryKeys es).contains atype && !(entryKeys es).contains zKeyOrder && inRtDomEntries es
  | .sym _ => false
  | .uint _ => false
  | .char _ => false
  | .list _ => false
def inRtDomList : List V → Bool
  | [] => true
  | a :: r => inRtDom a && inRtDomList r
def inRtDomEntries : List (V × V) → Bool
  | [] => true
  | (k, v) :: r => inDom k && inRtDom v && inRtDomEntries r
end

mutual
/-- "Equal value": the same value; only the raw-literal flag of a string (a matter of
source spelling, not of the string) is not kept. Numbers come back with the same type and
the same value (stronger than "compared by value"). -/
def norm : V → V
  | .str s _ => .str s false
  | .arr l => .arr (normList l)
  | .hash tn es => .hash tn (normEntries es)
  | v => v
def normList : List V → List V
  | [] => []
  | a :: r => norm a :: normList r
def normEntries : List (V × V) → List (V × V)
  | [] => []
  | (k, v) :: r => (k, norm v) :: normEntries r
end

end ZygoVerif.JsonData
