/-
Spec side of C11 for HISTORIES of encode / decode steps, written from the property text.

The property says: "encoding any value … and decoding it again yields an equal value". It
does not say "immediately". An encoded result — the raw value a script holds after
`(def m (msgpack v))`, the `[]byte` a Go caller got from `SexpToMsgpack` — is a VALUE: it
denotes `v` from the moment it is handed out, and nothing that is encoded, decoded or
mutated afterwards changes that. This file states that as a law about any implementation
seen as a transition system (`Machine`, `EncodeResultsStable`, `HistoryRoundTrip`), gives
the reference machine in which an encoded result literally is the value it stands for
(`valueMachine`), and the small history language that channel `json` runs (`hist` ops)
with its semantics over any machine (`run`). The spec-side answer of a history is
`run valueMachine`: every decode of every slot answers `norm v` of the value the slot was
made from, whatever happened in between; every stability question answers `same`; a
decoded result changes only when it is itself mutated; an encode sees the value as it is at
that moment (`mv` mutates an original between two encodes), a kept result the value as it
was.

Only the value type `V` and `norm` (Spec/JsonData.lean) are used; nothing of the encoder.
Core Lean only.
-/
import ZygoVerif.Spec.JsonData
namespace ZygoVerif.JsonHistory
open ZygoVerif.Print ZygoVerif.Rfc8259 ZygoVerif.JsonData

/-- the three encoders that exist: `SexpToJson` (builtin `json`), `SexpToMsgpack` (builtin
`msgpack`), and `GoToJson` after `JsonToGo` (exported Go function only) -/
inductive Fmt where
  | json | msgpack | gojson
  deriving DecidableEq, Repr, Inhabited

/-! ### an implementation as a transition system -/

/-- A codec with state. `σ` is everything that outlives one call (package-level variables,
buffers, caches, handles, the interpreters); `E` is what an encoded result is made of.
`encode` hands the caller a handle; `read` is what the caller sees through that handle at
some later state — in Go, the contents of the slice it was given. -/
structure Machine (σ E : Type) where
  init : σ
  encode : Fmt → V → σ → σ × Nat
  read : σ → Nat → Option E
  decode : Fmt → E → σ → σ × Option V
  /-- are two encoded results the same bytes -/
  same : E → E → Bool

/-- what may happen between the moment a result is produced and the moment it is used -/
inductive Op where
  | enc (f : Fmt) (v : V)
  | dec (f : Fmt) (h : Nat)

variable {σ E : Type}

/-- decode what handle `h` reads now -/
def Machine.decodeNow (M : Machine σ E) (m : σ) (f : Fmt) (h : Nat) : σ × Option V :=
  match M.read m h with
  | some e => M.decode f e m
  | none => (m, none)

def Machine.op (M : Machine σ E) (m : σ) : Op → σ
  | .enc f v => (M.encode f v m).1
  | .dec f h => (M.decodeNow m f h).1

def Machine.ops (M : Machine σ E) (m : σ) (l : List Op) : σ := l.foldl M.op m

/-- **Law 1: encoded results are values.** Whatever was done before (`pre`) and whatever is
done afterwards (`post`), the holder of an encode result reads the same thing. -/
def EncodeResultsStable (M : Machine σ E) : Prop :=
  ∀ (pre post : List Op) (f : Fmt) (v : V),
    M.read (M.ops (M.encode f v (M.ops M.init pre)).1 post) (M.encode f v (M.ops M.init pre)).2
      = M.read (M.encode f v (M.ops M.init pre)).1 (M.encode f v (M.ops M.init pre)).2

/-- **Law 2: `decode (encode v) = v` at every step of every history**, for the values
`dom` of the property's domain: after any prefix, encode `v`; after any suffix, decoding
what the handle reads gives `norm v`. -/
def HistoryRoundTrip (M : Machine σ E) (dom : Fmt → V → Prop) : Prop :=
  ∀ (pre post : List Op) (f : Fmt) (v : V), dom f v →
    (M.decodeNow (M.ops (M.encode f v (M.ops M.init pre)).1 post) f (M.encode f v (M.ops M.init pre)).2).2
      = some (norm v)

/-- The reference: an encoded result IS the value it was made from, kept in an append-only
list; decoding gives it back (up to `norm`: the raw-literal flag of strings). -/
def valueMachine : Machine (List V) V where
  init := []
  encode _ v s := (s ++ [v], s.length)
  read s h := s[h]?
  decode _ e s := (s, some (norm e))
  same _ _ := true

/-! ### the history language of channel `json` (`hist` ops) -/

inductive Step where
  /-- `ej/em ip i`, `gj i`, `gm i`: encode value `i` (in interpreter `ip`); the result is kept in the next slot -/
  | enc (f : Fmt) (ip i : Nat)
  /-- `d ip s`: decode what slot `s` holds now; the result is kept in the next result cell -/
  | dec (ip s : Nat)
  /-- `st s`: does slot `s` hold the bytes it held when it was produced -/
  | stable (s : Nat)
  /-- `zb s`: the holder overwrites its own bytes; the slot is dead afterwards -/
  | clobber (s : Nat)
  /-- `mu r`: `(aset r 0 MARK)` / `(hset r firstkey MARK)` on decoded result `r` -/
  | setFirst (r : Nat)
  /-- `md r`: the same on the first non-empty container directly inside result `r` -/
  | setInner (r : Nat)
  /-- `ad r`: `(hset r zzN<r>: MARK)` -/
  | addKey (r : Nat)
  /-- `sh r`: result `r` as it is now -/
  | «show» (r : Nat)
  /-- `mv ip i`: the ORIGINAL value `i` of interpreter `ip` is mutated in place (`aset` / `hset` of
  its first element); later encodes of it must see the new value, kept results the old one -/
  | setVal (ip i : Nat)
  deriving Repr, Inhabited

inductive Out where
  | ok | err | dead | same | changed | na | sameAsFirst | differs
  | val (v : V)
  deriving Repr, Inhabited

def mark : V := .int 424242

/-- `(aset a 0 MARK)` / `(hset h firstkey MARK)`; `none` when there is nothing to set -/
def setFirstV : V → Option V
  | .arr (_ :: r) => some (.arr (mark :: r))
  | .hash tn ((k, _) :: r) => some (.hash tn ((k, mark) :: r))
  | _ => none

def setInnerList : List V → Option (List V)
  | [] => none
  | a :: r =>
    match setFirstV a with
    | some a' => some (a' :: r)
    | none => (setInnerList r).map (a :: ·)

def setInnerEntries : List (V × V) → Option (List (V × V))
  | [] => none
  | (k, a) :: r =>
    match setFirstV a with
    | some a' => some ((k, a') :: r)
    | none => (setInnerEntries r).map ((k, a) :: ·)

def setInnerV : V → Option V
  | .arr l => (setInnerList l).map .arr
  | .hash tn es => (setInnerEntries es).map (.hash tn)
  | _ => none

def isSymNamed (n : Bytes) : V → Bool
  | .sym m => m == n
  | _ => false

/-- `HashSet`: an existing key keeps its place, a new one goes to the end of the key order -/
def hsetEntries (n : Bytes) (v : V) : List (V × V) → List (V × V)
  | [] => [(.sym n, v)]
  | (k, w) :: r => if isSymNamed n k then (k, v) :: r else (k, w) :: hsetEntries n v r

def newKeyName (r : Nat) : Bytes := asciiBytes "zzN" ++ asciiBytes (toString r)

def addKeyV (r : Nat) : V → Option V
  | .hash tn es => some (.hash tn (hsetEntries (newKeyName r) mark es))
  | _ => none

/-- a kept encode result: its format, the handle, what the handle read when the result was
produced, and whether the holder has overwritten it since -/
structure Slot (E : Type) where
  fmt : Fmt
  h : Nat
  snap : Option E
  dead : Bool

structure St (σ E : Type) where
  m : σ
  slots : List (Slot E)
  results : List (Option V)
  /-- the values of the history as they are now, one copy per interpreter (each interpreter
  builds its own objects; `mv` mutates one of them) -/
  vals : List (List V)

def St.init (M : Machine σ E) (vals : List V) : St σ E :=
  { m := M.init, slots := [], results := [], vals := [vals, vals] }

/-- apply a mutation to result cell `r`; `none` = no such cell (malformed op) -/
def mutate (st : St σ E) (r : Nat) (fn : V → Option V) : Option (St σ E × Out) :=
  match st.results[r]? with
  | none => none
  | some none => some (st, .na)
  | some (some v) =>
    match fn v with
    | some v' => some ({ st with results := st.results.set r (some v') }, .ok)
    | none => some (st, .na)

/-- one step of a history on machine `M`; `none` = malformed op (an index out of range) -/
def step (M : Machine σ E) (st : St σ E) : Step → Option (St σ E × Out)
  | .enc f ip i =>
    match (st.vals[ip]?).bind (·[i]?) with
    | none => none
    | some v =>
      let r := M.encode f v st.m
      let snap := M.read r.1 r.2
      some ({ st with m := r.1, slots := st.slots ++ [{ fmt := f, h := r.2, snap := snap, dead := false }] },
            if snap.isSome then .ok else .err)
  | .dec ip s =>
    if ip > 1 then none else
    match st.slots[s]? with
    | none => none
    | some sl =>
      if sl.dead then some ({ st with results := st.results ++ [none] }, .dead) else
      match sl.snap with
      | none => some ({ st with results := st.results ++ [none] }, .err)
      | some e0 =>
        if sl.fmt = .gojson then
          -- the text of GoToJson is not judged; only whether it still is what it was
          some ({ st with results := st.results ++ [none] },
                match M.read st.m sl.h with
                | some e => if M.same e e0 then .sameAsFirst else .differs
                | none => .differs)
        else
          let r := M.decodeNow st.m sl.fmt sl.h
          some ({ st with m := r.1, results := st.results ++ [r.2] },
                match r.2 with
                | some v => .val v
                | none => .err)
  | .stable s =>
    match st.slots[s]? with
    | none => none
    | some sl =>
      if sl.dead then some (st, .dead) else
      match sl.snap with
      | none => some (st, .err)
      | some e0 =>
        some (st, match M.read st.m sl.h with
                  | some e => if M.same e e0 then .same else .changed
                  | none => .changed)
  | .clobber s =>
    match st.slots[s]? with
    | none => none
    | some sl => some ({ st with slots := st.slots.set s { sl with dead := true } }, .ok)
  | .setFirst r => mutate st r setFirstV
  | .setInner r => mutate st r setInnerV
  | .addKey r => mutate st r (addKeyV r)
  | .show r =>
    match st.results[r]? with
    | none => none
    | some none => some (st, .na)
    | some (some v) => some (st, .val v)
  | .setVal ip i =>
    match st.vals[ip]? with
    | none => none
    | some l =>
      match l[i]? with
      | none => none
      | some v =>
        match setFirstV v with
        | none => some (st, .na)
        | some v' => some ({ st with vals := st.vals.set ip (l.set i v') }, .ok)

/-- the answers of a history, step by step; `none` = malformed op -/
def runFrom (M : Machine σ E) : St σ E → List Step → Option (List Out)
  | _, [] => some []
  | st, s :: r =>
    match step M st s with
    | none => none
    | some (st', o) => (runFrom M st' r).map (o :: ·)

def run (M : Machine σ E) (vals : List V) (steps : List Step) : Option (List Out) :=
  runFrom M (St.init M vals) steps

/-- **what the property demands of a history**: its answers on the reference machine -/
def specRun (vals : List V) (steps : List Step) : Option (List Out) := run valueMachine vals steps

end ZygoVerif.JsonHistory
