/-
Specification side of C12, written from the property text (independent of the lexer, parser
and printer models):

* `isData` — the data values of the first half of the property: integers, floats, booleans,
  nil, characters, strings, symbols, lists (also with a dotted tail) and arrays nested to any
  depth; `isJsonLike` — the values of the second half (numbers, strings, booleans, nil, arrays,
  hashes with pairwise different symbol or string keys).
* `mathValue` — the exact mathematical value of a numeric literal spelling in every notation
  the property lists (decimal with underscores, hex, octal, binary, uint64 suffix, fraction,
  exponent, signed, Inf), computed positionally (Σ dᵢ·bⁿ⁻¹⁻ⁱ), as an exact integer or an exact
  rational; `nearestF64` — the binary64 value closest to a rational (ties to even), found by
  bisection over the bit patterns with exact comparisons; `require` — what a reader must
  answer for a spelling.
* `litText` — the runes a string or character literal text denotes.
Core Lean only.
-/
import ZygoVerif.Model.Sexp
import ZygoVerif.Model.PrintData
namespace ZygoVerif.Spec.DataValue
open ZygoVerif
open ZygoVerif.PrintData (JV JKey)

/-! ## 1. The data values -/

def isNaNBits (b : Nat) : Bool := (b / 2 ^ 52) % 2048 == 2047 && b % 2 ^ 52 != 0

/-- runes that end or start something else than a symbol (ASCII punctuation with a meaning of its own) -/
def specialRune (c : Char) : Bool :=
  " \t\n\r()[]{}\"'`;,:%^~\\+-*<>=!&|/.#?@$".toList.contains c

def isDigit (c : Char) : Bool := '0' ≤ c && c ≤ '9'

/-- operator names that are symbols of their own -/
def operatorNames : List (List Char) :=
  ["+", "-", "*", "/", "<", ">", "<=", ">=", "==", "!=", "=", "!", "++", "--", "+=", "-=", "*=", "/=", "**", "->", "<-", "<!", ":=", "$"].map String.toList

def reservedWords : List (List Char) := ["true", "false", "NaN", "nan", "Inf", "inf"].map String.toList

/-- a symbol name: a word that does not start with a digit and holds no special rune (any other
Unicode character may occur), other than the words that are literals; or an operator name -/
def symbolName (n : List Char) : Bool :=
  operatorNames.contains n ||
  (match n with
   | [] => false
   | c :: _ => !isDigit c && n.all (fun c => !specialRune c) && !reservedWords.contains n)

mutual
def isData : Sexp → Bool
  | .int v => decide (-(2 : Int) ^ 63 ≤ v ∧ v < 2 ^ 63)
  | .uint v => decide (v < 2 ^ 64)
  | .float b _ => decide (b < 2 ^ 64)
  | .char v => v.isValidChar
  | .str s raw => !raw || !s.contains '`'
  | .sym n ct dot => !ct && !dot && symbolName n
  | .bool _ => true
  | .null => true
  | .pair h t => isData h && isData t
  | .array es inf => !inf && isDataList es
  | _ => false
def isDataList : List Sexp → Bool
  | [] => true
  | e :: r => isData e && isDataList r
end

mutual
/-- `nil` occurs only as the end of a list (see the known finding: the text `nil` reads back as
the symbol `nil`) -/
def nilFree : Sexp → Bool
  | .null => false
  | .pair h t => nilFree h && nilFreeTail t
  | .array es _ => nilFreeList es
  | _ => true
def nilFreeTail : Sexp → Bool
  | .null => true
  | .pair h t => nilFree h && nilFreeTail t
  | t => nilFree t
def nilFreeList : List Sexp → Bool
  | [] => true
  | e :: r => nilFree e && nilFreeList r
end

def keyOk : JKey → Bool
  | .sym n => symbolName n && !operatorNames.contains n
  | .str _ => true

mutual
def isJsonLike : JV → Bool
  | .nil => true
  | .bool _ => true
  | .int v => decide (-(2 : Int) ^ 63 ≤ v ∧ v < 2 ^ 63)
  | .flt b _ => decide (b < 2 ^ 64) && !isNaNBits b
  | .str _ => true
  | .arr es => isJsonLikeList es
  | .hash en => isJsonLikeEntries en && (en.map (·.1)).Nodup
def isJsonLikeList : List JV → Bool
  | [] => true
  | e :: r => isJsonLike e && isJsonLikeList r
def isJsonLikeEntries : List (JKey × JV) → Bool
  | [] => true
  | (k, v) :: r => keyOk k && isJsonLike v && isJsonLikeEntries r
end

/-! ## 2. Numeric literal spellings -/

inductive NumVal where
  | int (v : Int)                       -- an integer literal: its exact value
  | uint (v : Nat)                      -- a literal with the uint64 suffix
  | dec (neg : Bool) (mant : Nat) (e10 : Int)   -- a fraction/exponent literal: exactly ± mant · 10^e10
  | inf (neg : Bool)
  | nan
  deriving DecidableEq, Repr, Inhabited

def digitVal? (base : Nat) (c : Char) : Option Nat :=
  let v : Option Nat :=
    if '0' ≤ c ∧ c ≤ '9' then some (c.toNat - 48)
    else if 'a' ≤ c ∧ c ≤ 'f' then some (c.toNat - 87)
    else if 'A' ≤ c ∧ c ≤ 'F' then some (c.toNat - 55)
    else none
  match v with
  | some d => if d < base then some d else none
  | none => none

/-- the digits of a non-empty digit string in `base` -/
def digitsOf (base : Nat) (s : List Char) : Option (List Nat) :=
  if s.isEmpty then none else s.mapM (digitVal? base)

/-- positional value Σ dᵢ·baseⁿ⁻¹⁻ⁱ -/
def posValue (base : Nat) : List Nat → Nat
  | [] => 0
  | d :: r => d * base ^ r.length + posValue base r

def noUnderscore (s : List Char) : Bool := !s.contains '_'
def dropUnderscores (s : List Char) : List Char := s.filter (· != '_')

/-- `D[D_]*`: starts with a digit, then digits and underscores -/
def digitsUnderscores (s : List Char) : Bool :=
  match s with
  | c :: r => isDigit c && r.all (fun c => isDigit c || c == '_')
  | [] => false

/-- underscores only between two digits (the rule of Go 1.13 that the lexer's comment refers to):
none at the start, none at the end, no two in a row -/
def noDoubleUnderscore : List Char → Bool
  | a :: b :: r => !(a == '_' && b == '_') && noDoubleUnderscore (b :: r)
  | _ => true

def underscoresBetweenDigits (s : List Char) : Bool :=
  s.head? != some '_' && s.getLast? != some '_' && noDoubleUnderscore s

def stripSuffix? (suf s : List Char) : Option (List Char) :=
  if s.length ≥ suf.length ∧ s.drop (s.length - suf.length) = suf then some (s.take (s.length - suf.length)) else none

/-- split at the first rune satisfying `p` -/
def splitAt? (p : Char → Bool) (s : List Char) : Option (List Char × List Char) :=
  match s.dropWhile (fun c => !p c) with
  | [] => none
  | _ :: after => some (s.takeWhile (fun c => !p c), after)

/-- The exact value of a numeric spelling and whether the notation is one the property lists
(`true`: a reader must accept it with this value; `false`: a looser spelling — misplaced
underscores, a `+` sign, a sign on a based literal, `inf`, `.5e3` — that a reader may refuse,
but if it reads it as a number the number must be this one). `none`: not a number. -/
def mathValue (s : List Char) : Option (NumVal × Bool) :=
  let (sign, body) : Option Char × List Char := match s with
    | '-' :: r => (some '-', r)
    | '+' :: r => (some '+', r)
    | _ => (none, s)
  let neg := sign == some '-'
  let plus := sign == some '+'
  if body == "Inf".toList then some (.inf neg, true)
  else if body == "inf".toList then some (.inf neg, false)
  else if sign.isNone && body == "NaN".toList then some (.nan, true)
  else if sign.isNone && body == "nan".toList then some (.nan, false)
  else
  match stripSuffix? "ULL".toList body with
  | some d =>
    if sign.isSome then none else
    let (base, ds) : Nat × List Char := match d with
      | '0' :: 'x' :: r => (16, r)
      | '0' :: 'o' :: r => (8, r)
      | _ => (10, d)
    (digitsOf base ds).map fun l => (.uint (posValue base l), true)
  | none =>
  let based : Option (Nat × List Char) := match body with
    | '0' :: 'x' :: r => some (16, r)
    | '0' :: 'o' :: r => some (8, r)
    | '0' :: 'b' :: r => some (2, r)
    | _ => none
  match based with
  | some (base, ds) =>
    (digitsOf base ds).map fun l =>
      let v : Int := posValue base l
      (.int (if neg then -v else v), sign.isNone)
  | none =>
  if digitsUnderscores body then
    (digitsOf 10 (dropUnderscores body)).map fun l =>
      let v : Int := posValue 10 l
      (.int (if neg then -v else v), !plus && underscoresBetweenDigits body)
  else
  -- fraction / exponent
  let (mant, ex) : List Char × Option (List Char) := match splitAt? (fun c => c == 'e' || c == 'E') body with
    | some (m, e) => (m, some e)
    | none => (body, none)
  let (ip, fp) : List Char × Option (List Char) := match splitAt? (· == '.') mant with
    | some (i, f) => (i, some f)
    | none => (mant, none)
  if fp.isNone && ex.isNone then none else
  let fpd := fp.getD []
  let okInt := if ip.isEmpty then fp.isSome && digitsUnderscores fpd else digitsUnderscores ip
  let okFrac := ip.isEmpty || fpd.all (fun c => isDigit c || c == '_')
  if !(okInt && okFrac) then none else
  let expo : Option (Option Int) := match ex with
    | none => some none
    | some e =>
      let (eneg, ed) : Bool × List Char := match e with
        | '-' :: r => (true, r)
        | '+' :: r => (false, r)
        | _ => (false, e)
      if digitsUnderscores ed then
        (digitsOf 10 (dropUnderscores ed)).map fun l =>
          let v : Int := posValue 10 l
          some (if eneg then -v else v)
      else none
  match expo, digitsOf 10 (dropUnderscores ip ++ dropUnderscores fpd) with
  | some e, some _ =>
    -- value = (I + F / 10^|F|) · 10^e
    let iv := match digitsOf 10 (dropUnderscores ip) with | some l => posValue 10 l | none => 0
    let fl := (dropUnderscores fpd).length
    let fv := match digitsOf 10 (dropUnderscores fpd) with | some l => posValue 10 l | none => 0
    -- (I + F / 10^|F|) · 10^e = (I · 10^|F| + F) · 10^(e − |F|)
    let mant := iv * 10 ^ fl + fv
    let e10 : Int := e.getD 0 - fl
    let supported := !plus && noUnderscore body && (!ip.isEmpty || ex.isNone)
    some (.dec neg mant e10, supported)
  | _, _ => none

/-- the value of a binary64 bit pattern `b ≤ 0x7ff0000000000000` as a fraction `n / 2^1074`
(the pattern of +Inf stands for 2^1024) -/
def f64Num (b : Nat) : Nat :=
  let e := b / 2 ^ 52
  let m := b % 2 ^ 52
  if e = 0 then m else (2 ^ 52 + m) * 2 ^ (e - 1)

/-- `num/den ≥ value(b)` -/
def geF64 (num den b : Nat) : Bool := num * 2 ^ 1074 ≥ f64Num b * den

/-- the largest pattern in `[lo, hi)` whose value is ≤ num/den (`fuel` ≥ log₂ of the range) -/
def bisect (num den : Nat) : Nat → Nat → Nat → Nat
  | 0, lo, _ => lo
  | f + 1, lo, hi =>
    if hi ≤ lo + 1 then lo else
    let mid := (lo + hi) / 2
    if geF64 num den mid then bisect num den f mid hi else bisect num den f lo mid

/-- The binary64 closest to the non-negative rational `num/den`, ties to the even pattern;
`none` when that is beyond the largest finite value (overflow). -/
def nearestF64 (num den : Nat) : Option Nat :=
  let infBits := 0x7ff0000000000000
  let lo := bisect num den 64 0 infBits          -- value(lo) ≤ x < value(lo+1)
  -- distances: x − value(lo) and value(lo+1) − x, both over the denominator den·2^1074
  let x := num * 2 ^ 1074
  let dLo := x - f64Num lo * den
  let dHi := f64Num (lo + 1) * den - x
  let pick := if dLo < dHi then lo else if dHi < dLo then lo + 1 else (if lo % 2 = 0 then lo else lo + 1)
  if pick ≥ infBits then none else some pick

/-- the value a reader must produce for a `NumVal`; `none` = it cannot be represented (error) -/
def denote : NumVal → Option Sexp
  | .int v => if -(2 : Int) ^ 63 ≤ v ∧ v < 2 ^ 63 then some (.int v) else none
  | .uint v => if v < 2 ^ 64 then some (.uint v) else none
  | .dec neg mant e10 =>
    let sign := if neg then 2 ^ 63 else 0
    if mant = 0 then some (.float sign false) else
    -- 10^(mag−1) ≤ mant · 10^e10 < 10^mag; beyond ±400 the answer needs no arithmetic:
    -- every binary64 lies in (10^-324, 10^309)
    let mag : Int := (Nat.toDigits 10 mant).length + e10
    if mag > 400 then none
    else if mag < -400 then some (.float sign false)
    else
      let r := if e10 ≥ 0 then nearestF64 (mant * 10 ^ e10.toNat) 1 else nearestF64 mant (10 ^ (-e10).toNat)
      r.map fun b => .float (sign + b) false
  | .inf neg => some (.float (if neg then 0xfff0000000000000 else 0x7ff0000000000000) false)
  | .nan => some (.float 0x7ff8000000000001 false)

inductive Verdict where
  | must (v : Option Sexp)     -- `some`: this number; `none`: an error (out of range)
  | may (v : Option Sexp)      -- refused, or exactly this
  | notNumber                  -- anything but a number
  deriving Inhabited

def require (s : List Char) : Verdict :=
  match mathValue s with
  | none => .notNumber
  | some (v, true) => .must (denote v)
  | some (v, false) => .may (denote v)

/-! ## 3. String and character literal texts -/

def hexVal? (c : Char) : Option Nat := digitVal? 16 c

def hexRun? : Nat → List Char → Option (Nat × List Char)
  | 0, r => some (0, r)
  | n + 1, c :: r =>
    match hexVal? c, hexRun? n r with
    | some d, some (v, rest) => some (d * 16 ^ n + v, rest)
    | _, _ => none
  | _ + 1, [] => none

/-- the simple escapes: Go's plus `\#` of zygomys -/
def simpleEscape? (c : Char) : Option Char :=
  match c with
  | 'a' => some '\x07' | 'b' => some '\x08' | 'f' => some '\x0c' | 'n' => some '\n' | 'r' => some '\r'
  | 't' => some '\t' | 'v' => some '\x0b' | '\\' => some '\\' | '"' => some '"' | '\'' => some '\'' | '#' => some '#'
  | _ => none

inductive LitOut where
  | runes (l : List Char)
  | invalid          -- an escape that names no character (bad digits, a surrogate, beyond U+10FFFF)
  | unknown          -- an escape outside the table, an unterminated text: not judged
  deriving Inhabited

/-- the runes between the quotes `q … q`; stops at the closing quote, which must be the end -/
def litBody (q : Char) : Nat → List Char → List Char → LitOut
  | 0, _, _ => .unknown
  | _, [], _ => .unknown
  | f + 1, c :: r, acc =>
    if c == q then (if r.isEmpty then .runes acc.reverse else .unknown)
    else if c == '\\' then
      match r with
      | [] => .unknown
      | e :: r2 =>
        match simpleEscape? e with
        | some d => litBody q f r2 (d :: acc)
        | none =>
          let n := if e == 'x' then 2 else if e == 'u' then 4 else if e == 'U' then 8 else 0
          if n == 0 then .unknown else
          match hexRun? n r2 with
          | none => .invalid
          | some (v, r3) =>
            if e == 'x' && q == '"' && v ≥ 0x80 then .unknown      -- one byte, not a rune: outside this spec
            else if v.isValidChar then litBody q f r3 (Char.ofNat v :: acc) else .invalid
    else litBody q f r (c :: acc)

/-- what a string literal `"…"`, a raw string `` `…` `` or a character literal `'…'` denotes -/
def litText (t : List Char) : LitOut × Char :=
  match t with
  | '"' :: r => (litBody '"' (r.length + 1) r [], '"')
  | '\'' :: r =>
    (match litBody '\'' (r.length + 1) r [] with
     | .runes [c] => .runes [c]
     | .runes _ => .unknown
     | o => o, '\'')
  | '`' :: r =>
    (match r.reverse with
     | '`' :: body => if body.contains '`' then .unknown else .runes body.reverse
     | _ => .unknown, '`')
  | _ => (.unknown, ' ')

end ZygoVerif.Spec.DataValue
