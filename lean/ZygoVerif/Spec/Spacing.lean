/-
Specification for C06 `lex_spacing`: what a *legal spacing* of the tokens of an infix block is.
Written from the property text ("all operator/operand sequences … with and without spaces
around operators") and from the way infix blocks are written in tests/infix*.zy — NOT from
lexer.go: nothing of Model/Lexer is imported; the file speaks about characters only.

A block is a sequence of tokens (`Tok`): names and dotted paths, decimal and float numerals
(optionally signed), the operators written with operator characters, brackets, comma and
semicolon. A *spacing* gives every token the blanks written before it (`Item = (gap, tok)`).
Blanks are free everywhere; the question is only where a gap may be EMPTY. The rules
(`tightOK`, for the token `L`, the token `R` written directly after it, and the character `pb`
written directly before `L`):

  W  two words (names/numerals) need a blank between them;
  D  a one-character operator and a following character that together spell another operator or
     open a comment (`+ +`, `= =`, `< -`, `/ /`, `/ *`, …) need a blank;
  S  a signed numeral must directly follow a blank, an opening bracket, a separator or an
     operator character (after a word or a closing bracket the `-` is the binary operator);
  B  the binary `-` directly followed by a digit must itself directly follow a word or a closing
     bracket — otherwise it reads as the sign of the numeral (`a -1` is `a` and `-1`: the sign
     look-back of the lexer; known finding of C06).

Everything else may be written tight: `a+b`, `a*-1`, `a<=-1`, `f(x)[i]`, `a==-b`, `x=-y`, `a/b`.
`Proofs/LexSpacingSpec.lean` proves that the lexer model reads every legal spacing as exactly
the token sequence; `Props/C06.lean` shows rule B is needed (`…_counterexample`).
Core Lean only (the driver runs `legal`).
-/
namespace ZygoVerif.Spacing

def isBlank (c : Char) : Bool := c == ' ' || c == '\n' || c == '\t' || c == '\r'
def isDigit (c : Char) : Bool := '0' ≤ c && c ≤ '9'
def isLetter (c : Char) : Bool := ('a' ≤ c && c ≤ 'z') || ('A' ≤ c && c ≤ 'Z') || c == '_'

/-- an identifier: a letter (or `_`) followed by letters and digits -/
def isIdent (w : List Char) : Bool :=
  match w with
  | c :: r => isLetter c && r.all (fun x => isLetter x || isDigit x)
  | [] => false

/-- words that are literals, not names -/
def reservedWords : List (List Char) :=
  ["true".toList, "false".toList, "NaN".toList, "nan".toList, "Inf".toList, "inf".toList]

def isDigits (ds : List Char) : Bool := !ds.isEmpty && ds.all isDigit

/-- the operators written with operator characters -/
def opTexts : List (List Char) :=
  ["+", "-", "*", "/", "<", ">", "=", "!", "==", "!=", "<=", ">=", "+=", "-=", "++", "--", "**", ":=",
   "&&", "||", "->", "<-", "*=", "<!"].map String.toList

/-- two characters that together spell an operator or open a comment -/
def digraphs : List (List Char) :=
  ["++", "--", "+=", "-=", "==", "<=", ">=", "<-", "->", "*=", "/=", "**", "!=", "<!", "&&", "||", ":=", "//", "/*"].map String.toList

def digraph (a c : Char) : Bool := digraphs.contains [a, c]

/-- the characters after which a sign may start a numeral (`'\x00'` = start of the text) -/
def signMayFollow (c : Char) : Bool := "\x00 \t\n\r([{,;:+-*/<>=!&|".toList.contains c

inductive Tok where
  | name (lead : Bool) (segs : List (List Char))   -- `a`, `h.a.b`; with `lead`: `.f`, `.a.b`
  | num (neg : Bool) (ip : List Char) (fp : Option (List Char)) (ex : Option (Char × List Char))
      -- [-]ip[.fp][e(+|-)digits]
  | op (o : List Char)
  | punct (c : Char)                               -- ( ) [ ] { } , ;
  deriving Repr, DecidableEq

namespace Tok

def dotted : List (List Char) → List Char
  | [] => []
  | [s] => s
  | s :: rest => s ++ '.' :: dotted rest

def text : Tok → List Char
  | name lead segs => (if lead then ['.'] else []) ++ dotted segs
  | num neg ip fp ex =>
    (if neg then ['-'] else []) ++ ip ++
    (match fp with | some f => '.' :: f | none => []) ++
    (match ex with | some (s, ds) => 'e' :: s :: ds | none => [])
  | op o => o
  | punct c => [c]

def wf : Tok → Bool
  | name lead segs =>
    !segs.isEmpty && segs.all isIdent &&
    (lead || segs.length ≥ 2 || !reservedWords.contains (dotted segs)) &&
    !((dotted segs).drop ((dotted segs).length - 3) == "ULL".toList)
  | num _ ip fp ex =>
    isDigits ip &&
    (match fp with | some f => isDigits f | none => true) &&
    (match ex with | some (s, ds) => (s == '+' || s == '-') && isDigits ds | none => true)
  | op o => opTexts.contains o
  | punct c => "()[]{},;".toList.contains c

def isWord : Tok → Bool
  | name _ _ => true
  | num _ _ _ _ => true
  | _ => false

def isSigned : Tok → Bool
  | num neg _ _ _ => neg
  | _ => false

/-- a one-character operator -/
def isOp1 : Tok → Bool
  | op [_] => true
  | _ => false

def first (t : Tok) : Char := t.text.headD '\x00'
def last (t : Tok) : Char := t.text.getLastD '\x00'

end Tok

/-- May `R` be written directly after `L`, when `pb` is the character written directly before `L`? -/
def tightOK (pb : Char) (L R : Tok) : Bool :=
  !(L.isWord && R.isWord) &&                                   -- W
  !(L.isOp1 && digraph L.last R.first) &&                      -- D
  (!R.isSigned || signMayFollow L.last) &&                     -- S
  !(L.text == ['-'] && isDigit R.first && signMayFollow pb)    -- B

abbrev Item := List Char × Tok

/-- the character written last when `g` follows a text ending in `l` -/
def lastAfter (l : Char) (g : List Char) : Char := g.getLastD l

def renderItems : List Item → List Char
  | [] => []
  | (g, t) :: rest => g ++ t.text ++ renderItems rest

/-- legality of the items after `L`; `pb` is the character directly before `L` -/
def legalAfter (pb : Char) (L : Tok) : List Item → Bool
  | [] => true
  | (g, R) :: rest =>
    g.all isBlank && R.wf && (!g.isEmpty || tightOK pb L R) &&
    legalAfter (lastAfter L.last g) R rest

/-- **legal spacing** of a token sequence written after the character `l0` -/
def legal (l0 : Char) : List Item → Bool
  | [] => true
  | (g, R) :: rest =>
    g.all isBlank && R.wf && (!R.isSigned || signMayFollow (lastAfter l0 g)) &&
    legalAfter (lastAfter l0 g) R rest

/-! ## the source tree of a block

Brackets nest: an infix block is a sequence of source trees (`Src`): single tokens, `[ … ]`
selectors, `( … )` s-expression calls and nested `{ … }` blocks. `flat` is the token sequence as
written (brackets included), to which the spacing rules above apply. -/

inductive Src where
  | tok (t : Tok)               -- a name, numeral, operator, `,` or `;`
  | arr (xs : List Src)         -- [ … ]
  | call (xs : List Src)        -- ( … )
  | block (xs : List Src)       -- { … }
  deriving Repr

mutual
def Src.flat : Src → List Tok
  | .tok t => [t]
  | .arr xs => .punct '[' :: (flatL xs ++ [.punct ']'])
  | .call xs => .punct '(' :: (flatL xs ++ [.punct ')'])
  | .block xs => .punct '{' :: (flatL xs ++ [.punct '}'])
def flatL : List Src → List Tok
  | [] => []
  | x :: r => x.flat ++ flatL r
end

/-- is the token a bracket? -/
def Tok.isBracket : Tok → Bool
  | .punct c => !(c == ',' || c == ';')
  | _ => false

end ZygoVerif.Spacing
