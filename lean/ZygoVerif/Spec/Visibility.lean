/-
Specification for C18, written from the property text (not from the walkers):

  "From outside a package, a value, function or hash member whose name starts with a
   lower-case letter can be neither read nor assigned through any dot path, however deeply
   packages are nested or aliased, while capitalised members can; nested packages may be
   traversed whatever the case of the name they are stored under, and their members obey
   the same rule. Code defined inside the package keeps full access to its private
   members, also when called from outside."

Shape: first say what a dot path DENOTES in a world, with no notion of visibility
(`resolve`: the list of member hops and the value at the end); then judge the hops
(`hopVisible`). It shares with the model only the data (values, heap) and the meaning of
"this scope stack binds this name" (`lookupStack`, `assocGet`). Core Lean only.

Readings fixed here (the text leaves them open):
* "capitalised" = first rune is an upper-case letter (Go's exported-identifier rule,
  `unicode.IsUpper`); a name starting with a non-letter (`_x`, `$x`) or a title-case
  letter is therefore private;
* a hash member counts as "reached from outside a package" as soon as the path has gone
  through a package before reaching the hash; a hash that no package lies in front of is
  an ordinary record and all its keys are accessible (`h.a`);
* "nested packages may be traversed whatever the case" is the exemption for a package
  stored as a member OF A PACKAGE; it covers traversing and reading the package value
  itself, not assigning to the name; a package stored under a lower-case key of a hash
  that was reached through a package is a private hash member;
* assigning through a package can only replace an existing member (a path cannot create
  members of somebody else's package); assigning into a hash may add the key.
-/
import ZygoVerif.Model.Pkg
namespace ZygoVerif.Visibility
open ZygoVerif.Pkg

/-- The name starts with an upper-case letter. -/
def capitalised : Name → Bool
  | [] => false
  | c :: _ => isUpperRune c

/-- One member hop of a dot path. -/
structure Hop where
  inPkg : Bool     -- the container asked for the member is a package (else a hash)
  via : Bool       -- the path has passed through a package at or before this container
  name : Name
  target : Val     -- what the member holds
  deriving DecidableEq, Repr

def isPkg : Val → Bool
  | .pkg _ _ => true
  | _ => false

/-- What the parts of a dot path denote, starting at container `c` (`via`: a package was
already crossed): the hops, the value at the end, and whether a package had been crossed
before a hash at the end was reached. No visibility involved. -/
def resolve (h : Heap) : Val → Bool → List Name → Option (List Hop × Val × Bool)
  | c, via, [] => some ([], c, via)
  | .pkg _ sc, _, nm :: rest =>
    match lookupStack h nm sc with
    | none => none
    | some (v, _) =>
      match resolve h v true rest with
      | none => none
      | some (hs, r) => some ({ inPkg := true, via := true, name := nm, target := v } :: hs, r)
  | .hash id, via, nm :: rest =>
    match assocGet nm (h.hashObj id) with
    | none => none
    | some v =>
      match resolve h v via rest with
      | none => none
      | some (hs, r) => some ({ inPkg := false, via := via, name := nm, target := v } :: hs, r)
  | _, _, _ :: _ => none

/-- The rule of the property for one hop that is read or traversed from outside. -/
def hopVisible (hp : Hop) : Bool :=
  !hp.via || capitalised hp.name || (hp.inPkg && isPkg hp.target)

/-- Reading `parts` below container `c` from outside: the value, when the parts denote one
and every hop is visible. -/
def readable (h : Heap) (c : Val) (via : Bool) (parts : List Name) : Option Val :=
  match resolve h c via parts with
  | none => none
  | some (hs, v, _) => if hs.all hopVisible then some v else none

/-- Assigning at `parts` below container `c` from outside is permitted. -/
def assignable (h : Heap) (c : Val) (via : Bool) (parts : List Name) : Bool :=
  match parts.getLast? with
  | none => false
  | some last =>
    match resolve h c via parts.dropLast with
    | none => false
    | some (hs, cont, v) =>
      hs.all hopVisible &&
      match cont with
      | .pkg _ sc => (lookupStack h last sc).isSome && capitalised last
      | .hash _ => !v || capitalised last
      | _ => false

/-- A whole dot path `root.parts…` evaluated outside every package, where `lex` is the
lexical scope stack of the accessing code. -/
def readableFrom (h : Heap) (lex : List Nat) : List Name → Option Val
  | [] => none
  | root :: parts =>
    match lookupStack h root lex with
    | none => none
    | some (v, _) => readable h v false parts

def assignableFrom (h : Heap) (lex : List Nat) : List Name → Bool
  | [] => false
  | root :: parts =>
    match lookupStack h root lex with
    | none => false
    | some (v, _) => assignable h v false parts

/-- Inside: code of a package whose scope stack is `sc` reaches every name that stack
binds, whatever its case. -/
def insideReadable (h : Heap) (sc : List Nat) (nm : Name) : Option Val :=
  (lookupStack h nm sc).map (·.1)

end ZygoVerif.Visibility
