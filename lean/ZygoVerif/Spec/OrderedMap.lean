/-
Specification for C14, written from the property text only: a hash is an association list
in first-insertion order. Nothing here knows about hash codes, buckets, KeyOrder or NumKeys.

  "a hash contains exactly the keys that were set and not later deleted, each mapped to its
   latest value. Its length, key list, positional access, range iteration, printed form and
   encodings agree with that content and present the live keys once each in first-insertion
   order; deleting or looking up a missing key has no effect on anything else."

Key identity is the language's own equality `keq` (so 'x' and 120 are one key); a
one-element array key is its element (`RKey.norm`). A key keeps the spelling and the
position of its FIRST insertion while it stays in the hash; a later `hset` only changes
the value.
-/
import ZygoVerif.Model.Hash
namespace ZygoVerif.Hash.Spec
open ZygoVerif.Hash

/-- The whole state of the specification: live entries, oldest first. -/
abbrev OMap (K V : Type) := List (K × V)

section
variable {K V : Type} (keq : K → K → Bool) (sh : Show K V)

def lookup (m : OMap K V) (k : K) : Option V :=
  (m.find? (fun e => keq e.1 k)).map (·.2)

def set (m : OMap K V) (k : K) (v : V) : OMap K V :=
  if m.any (fun e => keq e.1 k) then m.map (fun e => if keq e.1 k then (e.1, v) else e)
  else m ++ [(k, v)]

def del (m : OMap K V) (k : K) : OMap K V := m.filter (fun e => !keq e.1 k)

/-- `{k1:v1 k2:v2}` -/
def strRope (m : OMap K V) : List String :=
  ["{"] ++ (m.map (fun e => sh.inHash e.1 ++ ":" ++ sh.val e.2)).intersperse " " ++ ["}"]

/-- `{"Atype":"hash", "k1":v1, "k2":v2, "zKeyOrder":["k1", "k2"]}`; no members → `{"Atype":"hash"}` -/
def jsonRope (m : OMap K V) : List String :=
  ["{\"Atype\":\"hash\""] ++
  (if m.isEmpty then [] else
    m.flatMap (fun e => [", ", sh.jsonKey e.1 ++ ":" ++ sh.val e.2]) ++
    [", ", "\"zKeyOrder\":["] ++ (m.map (fun e => sh.jsonKey e.1)).intersperse ", " ++ ["]"]) ++
  ["}"]

def step (m : OMap K V) : Op K V → OMap K V × Obs K V
  | .hset k v => (set keq m k.norm v, .ok)
  | .hdel k => (del keq m k.norm, .ok)
  | .hget k => (m, match lookup keq m k.norm with | some v => .val v | none => .err)
  | .hgetd k => (m, match lookup keq m k.norm with | some v => .val v | none => .dflt)
  | .keys => (m, .keys (m.map (·.1)))
  | .len => (m, .num m.length)
  | .hpair pos => (m, match m[pos]? with | some (k, v) => .pair k v | none => .err)
  | .range => (m, .pairs m)
  | .str => (m, .text (strRope sh m))
  | .json => (m, .text (jsonRope sh m))

def run (m : OMap K V) : List (Op K V) → List (Obs K V)
  | [] => []
  | op :: rest => let (m', ob) := step keq sh m op; ob :: run m' rest

def exec (m : OMap K V) : List (Op K V) → OMap K V
  | [] => m
  | op :: rest => exec (step keq sh m op).1 rest

end
end ZygoVerif.Hash.Spec
