/-
C20 — specification side, written from the property text: "the same value … independent
of Go's randomised map iteration order". For every walk the spec says what the result is
*as a function of the map's content* (no iteration order in sight): a set of bindings, a
sum, a sorted listing, the earliest-registered name. Short and independent of
Model/MapWalk.lean. Core Lean only.
-/
namespace ZygoVerif.Spec.OrderFree

/-- The content of a Go map: which value a key is bound to. -/
def bound {K V} [DecidableEq K] (m : List (K × V)) (k : K) : Option V :=
  (m.find? (fun p => p.1 = k)).map (·.2)

/-- Sorted listing of a map: the bindings in increasing key order. -/
def sortedListing {V} (m : List (String × V)) : List (String × V) :=
  m.mergeSort (fun p q => decide (p.1 ≤ q.1))

/-- Number of pairs held by the buckets of a hash. -/
def pairCount {P} (buckets : List (Nat × List P)) : Nat :=
  (buckets.map (·.2.length)).sum

/-- A hash is empty iff no bucket holds a pair. -/
def isEmpty {P} (buckets : List (Nat × List P)) : Bool :=
  buckets.all (·.2.isEmpty)

/-- The record type name chosen for a Go value: the earliest *registered* name whose
registry entry produces that Go type — a function of the registry content and of the
registration order, not of map iteration. -/
def typeNameFor (order : List String) (entryType : String → Option Nat) (goType : Nat) : Option String :=
  order.find? (fun n => entryType n == some goType)

/-- Symbol numbers after decoding a JSON object, as a function of the document's CONTENT:
the new names are numbered after the old ones, members taken in increasing name order
(`Atype` names nothing, `zKeyOrder` stands for the strings it lists), a name keeps the first
number it got. Written with `mergeSort` and `eraseDups`, not with the decoder's loop. -/
def decodedSymbolOrder (table : List String) (members : List (String × List String)) : List String :=
  let cands := (sortedListing members).flatMap fun (k, inner) =>
    if k == "zKeyOrder" then inner else if k == "Atype" then [] else k :: inner
  (table ++ cands).eraseDups

/-- Interference freedom, as the `interf` channel states it: what a fresh interpreter
computes for a program is what it computes in a process where nothing ran before. -/
def sameAsAlone (alone afterHistory : String) : Bool := alone == afterHistory

/-- Determinism itself, as the `det` channel states it: all runs of one program agree. -/
def allRunsAgree (outcomes : List String) : Bool :=
  match outcomes with
  | [] => true
  | o :: rest => rest.all (· == o)

end ZygoVerif.Spec.OrderFree
