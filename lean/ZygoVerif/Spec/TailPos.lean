/-
C09 — what "tail position" means, written from the property text and independent of the
generator. Core-only.

  "A function that calls itself in tail position (directly, or as the last form of cond
   arms, begin, let, letseq, newScope bodies or the last arm of and/or, nested in any
   combination) …"

* `TailStep e m sc` — `m` is an immediate sub-expression of `e` that is in tail position
                       whenever `e` is; `sc` tells whether `e` opens a scope around `m`
                       (`let`, `letseq`, `newScope`).
* `TailAt k e s`    — `s` is reached from `e` through tail steps only, crossing `k` scopes.
* `NonTailStep e m` — `m` is an immediate sub-expression of `e` that the generator compiles
                       as part of the same function body but whose value `e` still needs:
                       a `cond` test, a non-last statement, an initialiser, a non-last
                       `and`/`or` arm, an array element, the right-hand side of `def`/`set`
                       and of an assignment to a place. (Operands of an ordinary call are not in
                       this list: they are compiled at run time by a fresh generator, see
                       `VM.evalCallExpr`. The parts of a `for` are not in it either: the
                       generator clears the flag for all four, `Model/Gen.lean` `.for_`.)
* `NonTailAt e s`   — `s` is reached from `e` by a path with at least one non-tail step.
-/
import ZygoVerif.Model.CoreSexp
namespace ZygoVerif.TailSpec
open ZygoVerif.Core

inductive TailStep : Expr → Expr → Bool → Prop
  | condArm {arms : List (Expr × Expr)} {d p b : Expr} : (p, b) ∈ arms → TailStep (.cond arms d) b false
  | condDefault {arms : List (Expr × Expr)} {d : Expr} : TailStep (.cond arms d) d false
  | beginLast {es : List Expr} {e : Expr} : es.getLast? = some e → TailStep (.begin_ es) e false
  | letLast {seq : Bool} {bs : List (String × Expr)} {body : List Expr} {e : Expr} :
      body.getLast? = some e → TailStep (.let_ seq bs body) e true
  | newScopeLast {es : List Expr} {e : Expr} : es.getLast? = some e → TailStep (.newScope es) e true
  | andLast {es : List Expr} {e : Expr} : es.getLast? = some e → TailStep (.and_ es) e false
  | orLast {es : List Expr} {e : Expr} : es.getLast? = some e → TailStep (.or_ es) e false

/-- `s` is in tail position of `e`, under `k` scopes opened by `e` and the forms between. -/
inductive TailAt : Nat → Expr → Expr → Prop
  | here {e : Expr} : TailAt 0 e e
  | step {e m s : Expr} {sc : Bool} {k : Nat} : TailStep e m sc → TailAt k m s → TailAt (k + sc.toNat) e s

inductive NonTailStep : Expr → Expr → Prop
  | condTest {arms : List (Expr × Expr)} {d p b : Expr} : (p, b) ∈ arms → NonTailStep (.cond arms d) p
  | beginInner {es : List Expr} {e : Expr} : e ∈ es.dropLast → NonTailStep (.begin_ es) e
  | letInit {seq : Bool} {bs : List (String × Expr)} {body : List Expr} {x : String} {e : Expr} :
      (x, e) ∈ bs → NonTailStep (.let_ seq bs body) e
  | letInner {seq : Bool} {bs : List (String × Expr)} {body : List Expr} {e : Expr} :
      e ∈ body.dropLast → NonTailStep (.let_ seq bs body) e
  | newScopeInner {es : List Expr} {e : Expr} : e ∈ es.dropLast → NonTailStep (.newScope es) e
  | andInner {es : List Expr} {e : Expr} : e ∈ es.dropLast → NonTailStep (.and_ es) e
  | orInner {es : List Expr} {e : Expr} : e ∈ es.dropLast → NonTailStep (.or_ es) e
  | arrElem {es : List Expr} {e : Expr} : e ∈ es → NonTailStep (.arr es) e
  | defRhs {x : String} {e : Expr} : NonTailStep (.def_ x e) e
  | setRhs {x : String} {e : Expr} : NonTailStep (.set_ x e) e
  | assignLhs {l r : Expr} : NonTailStep (.assign l r) l
  | assignRhs {l r : Expr} : NonTailStep (.assign l r) r

/-- Reached through steps of either kind (the sub-expressions compiled into the same body). -/
inductive Inline : Expr → Expr → Prop
  | here {e : Expr} : Inline e e
  | tail {e m s : Expr} {sc : Bool} : TailStep e m sc → Inline m s → Inline e s
  | nonTail {e m s : Expr} : NonTailStep e m → Inline m s → Inline e s

/-- Reached by a path with at least one non-tail step. -/
inductive NonTailAt : Expr → Expr → Prop
  | nonTail {e m s : Expr} : NonTailStep e m → Inline m s → NonTailAt e s
  | tail {e m s : Expr} {sc : Bool} : TailStep e m sc → NonTailAt m s → NonTailAt e s

/-- Every inline path is either all-tail or has a non-tail step. -/
theorem inline_dichotomy {e s : Expr} (h : Inline e s) : (∃ k, TailAt k e s) ∨ NonTailAt e s := by
  induction h with
  | here => exact .inl ⟨0, .here⟩
  | tail st _ ih =>
    rcases ih with ⟨k, hk⟩ | hn
    · exact .inl ⟨_, .step st hk⟩
    · exact .inr (.tail st hn)
  | nonTail st hi _ => exact .inr (.nonTail st hi)

end ZygoVerif.TailSpec
