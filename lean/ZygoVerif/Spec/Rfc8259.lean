/-
RFC 8259 (JSON) as a parser from a byte sequence to a value type, written from the RFC
text, independent of the zygomys encoder. JSON text exchanged between systems must be
UTF-8 (RFC 8259 §8.1); the parser therefore works on bytes and validates UTF-8 strictly
(RFC 3629: no overlong forms, no surrogates, nothing above U+10FFFF).

  value = false / null / true / object / array / number / string        (§3)
  ws    = *( %x20 / %x09 / %x0A / %x0D )                                 (§2)
  number = [ minus ] int [ frac ] [ exp ]                                (§6)
  string = quotation-mark *char quotation-mark                           (§7)
  char   = unescaped / \ ( " \ / b f n r t / uXXXX )
  unescaped = %x20-21 / %x23-5B / %x5D-10FFFF

A string value is kept as the UTF-8 bytes of its characters (escapes decoded; a `\u`
escape of a surrogate that is not part of a pair denotes U+FFFD, as Go's encoding/json
does). A number is kept as sign, decimal mantissa and power of ten, normalised, plus one
bit of spelling that decoders observe: whether the literal was a plain integer.
Core Lean only.
-/
namespace ZygoVerif.Rfc8259

abbrev Bytes := List Nat

/-- A number: value = (-1)^neg * mant * 10^exp, kept normalised (`mant` has no trailing
decimal zero; zero has `exp = 0`), so that `2`, `2.0` and `20e-1` are the same number.
`integral` records one bit of spelling that decoders observe: the literal was
`[ minus ] int` with neither frac nor exp. -/
structure JNumber where
  neg : Bool
  mant : Nat
  exp : Int
  integral : Bool
  deriving DecidableEq, Repr, Inhabited

/-- moves trailing decimal zeros of a non-zero mantissa into the exponent -/
def stripZeros (m : Nat) (e : Int) : Nat × Int :=
  if h : m ≠ 0 ∧ m % 10 = 0 then stripZeros (m / 10) (e + 1) else (m, e)
termination_by m
decreasing_by omega

def JNumber.make (neg : Bool) (m : Nat) (e : Int) (integral : Bool) : JNumber :=
  if m = 0 then { neg := neg, mant := 0, exp := 0, integral := integral }
  else { neg := neg, mant := (stripZeros m e).1, exp := (stripZeros m e).2, integral := integral }

inductive JValue where
  | null
  | bool (b : Bool)
  | num (n : JNumber)
  | str (s : Bytes)
  | arr (l : List JValue)
  | obj (l : List (Bytes × JValue))
  deriving Repr, Inhabited

/-! ### UTF-8 (RFC 3629) -/

def isCont (b : Nat) : Bool := 0x80 ≤ b && b ≤ 0xBF

/-- Splits off the encoding of one Unicode scalar value from the front, strictly. -/
def scalar? : Bytes → Option (Bytes × Bytes)
  | [] => none
  | b0 :: r =>
    if b0 < 0x80 then some ([b0], r)
    else if 0xC2 ≤ b0 ∧ b0 ≤ 0xDF then
      match r with
      | b1 :: r' => if isCont b1 then some ([b0, b1], r') else none
      | _ => none
    else if 0xE0 ≤ b0 ∧ b0 ≤ 0xEF then
      match r with
      | b1 :: b2 :: r' =>
        if isCont b1 ∧ isCont b2 ∧ (b0 = 0xE0 → 0xA0 ≤ b1) ∧ (b0 = 0xED → b1 ≤ 0x9F)
        then some ([b0, b1, b2], r') else none
      | _ => none
    else if 0xF0 ≤ b0 ∧ b0 ≤ 0xF4 then
      match r with
      | b1 :: b2 :: b3 :: r' =>
        if isCont b1 ∧ isCont b2 ∧ isCont b3 ∧ (b0 = 0xF0 → 0x90 ≤ b1) ∧ (b0 = 0xF4 → b1 ≤ 0x8F)
        then some ([b0, b1, b2, b3], r') else none
      | _ => none
    else none

/-- `validUtf8 bs`: `bs` is a concatenation of scalar encodings. (`fuel` = an upper bound
on the number of scalars; `ValidUtf8` supplies the length.) -/
def validUtf8Fuel : Nat → Bytes → Bool
  | _, [] => true
  | 0, _ :: _ => false
  | f + 1, bs => match scalar? bs with
    | some (_, r) => validUtf8Fuel f r
    | none => false

def validUtf8 (bs : Bytes) : Bool := validUtf8Fuel bs.length bs

/-- UTF-8 encoding of a code point (surrogates and out-of-range values become U+FFFD). -/
def encodeScalar (c : Nat) : Bytes :=
  if c < 0x80 then [c]
  else if c < 0x800 then [0xC0 + c / 64, 0x80 + c % 64]
  else if (0xD800 ≤ c ∧ c ≤ 0xDFFF) ∨ 0x10FFFF < c then [0xEF, 0xBF, 0xBD]
  else if c < 0x10000 then [0xE0 + c / 4096, 0x80 + c / 64 % 64, 0x80 + c % 64]
  else [0xF0 + c / 262144, 0x80 + c / 4096 % 64, 0x80 + c / 64 % 64, 0x80 + c % 64]

/-! ### Lexical pieces -/

def isWs (b : Nat) : Bool := b = 0x20 || b = 0x09 || b = 0x0A || b = 0x0D

def skipWs : Bytes → Bytes
  | [] => []
  | b :: r => if isWs b then skipWs r else b :: r

def isDigit (b : Nat) : Bool := 0x30 ≤ b && b ≤ 0x39

/-- Longest prefix of digits (as digit values) and the rest. -/
def takeDigits : Bytes → List Nat × Bytes
  | [] => ([], [])
  | b :: r => if isDigit b then let (d, r') := takeDigits r; ((b - 0x30) :: d, r') else ([], b :: r)

def digitsVal (ds : List Nat) : Nat := ds.foldl (fun a d => a * 10 + d) 0

def hexVal? (b : Nat) : Option Nat :=
  if 0x30 ≤ b ∧ b ≤ 0x39 then some (b - 0x30)
  else if 0x41 ≤ b ∧ b ≤ 0x46 then some (b - 0x41 + 10)
  else if 0x61 ≤ b ∧ b ≤ 0x66 then some (b - 0x61 + 10)
  else none

def hex4? : Bytes → Option (Nat × Bytes)
  | a :: b :: c :: d :: r =>
    match hexVal? a, hexVal? b, hexVal? c, hexVal? d with
    | some a, some b, some c, some d => some (((a * 16 + b) * 16 + c) * 16 + d, r)
    | _, _, _, _ => none
  | _ => none

/-- number = [ minus ] int [ frac ] [ exp ]; int = zero / ( digit1-9 *DIGIT ). Consumes the
longest number token; the caller decides what may follow. -/
def parseNumber (inp : Bytes) : Option (JNumber × Bytes) :=
  let (neg, r0) := match inp with
    | 0x2D :: r => (true, r)
    | r => (false, r)
  let (ip, r1) := takeDigits r0
  -- int: at least one digit, no leading zero unless the integer part is exactly "0"
  if ip.isEmpty || (ip.head? == some 0 && ip.length > 1) then none else
  -- frac = decimal-point 1*DIGIT
  let frac : Option (List Nat × Bytes) := match r1 with
    | 0x2E :: r => let (fp, r2) := takeDigits r; if fp.isEmpty then none else some (fp, r2)
    | r => some ([], r)
  match frac with
  | none => none
  | some (fp, r2) =>
    -- exp = e [ minus / plus ] 1*DIGIT
    let ex : Option (Option Int × Bytes) :=
      match r2 with
      | e :: r =>
        if e = 0x65 ∨ e = 0x45 then
          let (sgn, r3) := match r with
            | 0x2D :: r' => (true, r')
            | 0x2B :: r' => (false, r')
            | r' => (false, r')
          let (ep, r4) := takeDigits r3
          if ep.isEmpty then none
          else some (some (if sgn then - (digitsVal ep : Int) else (digitsVal ep : Int)), r4)
        else some (none, r2)
      | [] => some (none, [])
    match ex with
    | none => none
    | some (e, r4) =>
      some (JNumber.make neg (digitsVal (ip ++ fp)) (e.getD 0 - (fp.length : Int))
              (fp.isEmpty && e.isNone), r4)

/-- Body of a string after the opening quotation mark; `acc` collects the UTF-8 bytes of
the characters read so far. `fuel` bounds the number of characters. -/
def parseStrBody : Nat → Bytes → Bytes → Option (Bytes × Bytes)
  | 0, _, _ => none
  | _ + 1, [], _ => none
  | f + 1, b :: r, acc =>
    if b = 0x22 then some (acc, r)
    else if b = 0x5C then
      match r with
      | [] => none
      | e :: r' =>
        if e = 0x22 then parseStrBody f r' (acc ++ [0x22])
        else if e = 0x5C then parseStrBody f r' (acc ++ [0x5C])
        else if e = 0x2F then parseStrBody f r' (acc ++ [0x2F])
        else if e = 0x62 then parseStrBody f r' (acc ++ [0x08])
        else if e = 0x66 then parseStrBody f r' (acc ++ [0x0C])
        else if e = 0x6E then parseStrBody f r' (acc ++ [0x0A])
        else if e = 0x72 then parseStrBody f r' (acc ++ [0x0D])
        else if e = 0x74 then parseStrBody f r' (acc ++ [0x09])
        else if e = 0x75 then
          match hex4? r' with
          | none => none
          | some (u, r'') =>
            if 0xD800 ≤ u ∧ u ≤ 0xDBFF then
              -- a high surrogate: combine with a following \uDC00-\uDFFF
              match r'' with
              | 0x5C :: 0x75 :: r3 =>
                match hex4? r3 with
                | some (l, r4) =>
                  if 0xDC00 ≤ l ∧ l ≤ 0xDFFF
                  then parseStrBody f r4 (acc ++ encodeScalar (0x10000 + (u - 0xD800) * 1024 + (l - 0xDC00)))
                  else parseStrBody f r'' (acc ++ encodeScalar u)
                | none => parseStrBody f r'' (acc ++ encodeScalar u)
              | _ => parseStrBody f r'' (acc ++ encodeScalar u)
            else parseStrBody f r'' (acc ++ encodeScalar u)
        else none
    else if b < 0x20 then none
    else
      match scalar? (b :: r) with
      | some (s, r') => parseStrBody f r' (acc ++ s)
      | none => none

def parseString (inp : Bytes) : Option (Bytes × Bytes) := parseStrBody inp.length inp []

def stripPrefix (p : Bytes) (inp : Bytes) : Option Bytes :=
  if p.isPrefixOf inp then some (inp.drop p.length) else none

/-! ### Values -/

mutual
/-- `ws value` (leading white space skipped); returns the value and the remaining input. -/
def parseValue : Nat → Bytes → Option (JValue × Bytes)
  | 0, _ => none
  | f + 1, inp =>
    match skipWs inp with
    | [] => none
    | b :: r =>
      if b = 0x22 then
        match parseString r with
        | some (s, r') => some (.str s, r')
        | none => none
      else if b = 0x5B then
        match skipWs r with
        | 0x5D :: r' => some (.arr [], r')
        | _ => parseElems f r []
      else if b = 0x7B then
        match skipWs r with
        | 0x7D :: r' => some (.obj [], r')
        | _ => parseMembers f r []
      else if b = 0x74 then (stripPrefix [0x72, 0x75, 0x65] r).map fun r' => (.bool true, r')
      else if b = 0x66 then (stripPrefix [0x61, 0x6C, 0x73, 0x65] r).map fun r' => (.bool false, r')
      else if b = 0x6E then (stripPrefix [0x75, 0x6C, 0x6C] r).map fun r' => (.null, r')
      else if b = 0x2D ∨ isDigit b then
        match parseNumber (b :: r) with
        | some (n, r') => some (.num n, r')
        | none => none
      else none
/-- `value *( ws , value ) ws ]` -/
def parseElems : Nat → Bytes → List JValue → Option (JValue × Bytes)
  | 0, _, _ => none
  | f + 1, inp, acc =>
    match parseValue f inp with
    | none => none
    | some (v, r) =>
      match skipWs r with
      | 0x2C :: r' => parseElems f r' (acc ++ [v])
      | 0x5D :: r' => some (.arr (acc ++ [v]), r')
      | _ => none
/-- `ws string ws : value *( ws , member ) ws }` -/
def parseMembers : Nat → Bytes → List (Bytes × JValue) → Option (JValue × Bytes)
  | 0, _, _ => none
  | f + 1, inp, acc =>
    match skipWs inp with
    | 0x22 :: r =>
      match parseString r with
      | none => none
      | some (k, r1) =>
        match skipWs r1 with
        | 0x3A :: r2 =>
          match parseValue f r2 with
          | none => none
          | some (v, r3) =>
            match skipWs r3 with
            | 0x2C :: r' => parseMembers f r' (acc ++ [(k, v)])
            | 0x7D :: r' => some (.obj (acc ++ [(k, v)]), r')
            | _ => none
        | _ => none
    | _ => none
end

/-- JSON-text = ws value ws (§2): the whole input is one value. -/
def parse (inp : Bytes) : Option JValue :=
  match parseValue (inp.length + 1) inp with
  | some (v, r) => if (skipWs r).isEmpty then some v else none
  | none => none

/-- `s` (a complete byte sequence) is exactly one JSON string literal. -/
def isStringLiteral (s : Bytes) : Bool :=
  match s with
  | 0x22 :: r => match parseString r with
    | some (_, []) => true
    | _ => false
  | _ => false

end ZygoVerif.Rfc8259
