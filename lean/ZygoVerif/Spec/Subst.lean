/-
Specification of syntax-quote, written from the text of property C15:

  "A syntax-quoted template evaluates to exactly the template with each unquoted expression
   replaced by its value and each splice replaced by the elements of its list, at any depth
   inside lists, arrays and hashes, leaving everything else literally as written."

A template is a tree; `items` says what one element contributes to the sequence (list, array,
hash body) it is written in: a literal, a nested list/array/hash or an unquote contributes
one value, a splice contributes the elements of its list (possibly none). `subst` is the
value of a whole template; a splice that is not inside any sequence has nothing to be
spliced into and is rejected. `none` = error (an unquoted expression without a value, a
splice of a non-list, a hash that cannot be built).

Only the value type `Sexp` is shared with the model; nothing here mentions instructions,
markers or stacks. Core Lean only.
-/
import ZygoVerif.Model.SQ
namespace ZygoVerif.Subst
open ZygoVerif.SQ (Atom Sexp)

inductive Tmpl where
  | lit (a : Atom)                                  -- a symbol, number, string: stays as written
  | unquote (e : Sexp)                              -- ~e
  | splice (e : Sexp)                               -- ~@e
  | list (ts : List Tmpl)                           -- ( … )
  | arr (ts : List Tmpl)                            -- [ … ]
  | hash (ty : String) (kvs : List (Tmpl × Tmpl))   -- { k:v … }

/-- The bindings: the value of every expression that may be unquoted (`none` = it has none),
and how a hash is made from its k v k v … sequence (ordered map, property C14). -/
structure Binding where
  value : Sexp → Option Sexp
  mkHash : String → List Sexp → Option Sexp

/-- the list value with these elements -/
def ofList : List Sexp → Sexp
  | [] => .nil
  | x :: xs => .cons x (ofList xs)

/-- the elements of a list value (`none` when it is not a proper list) -/
def elems : Sexp → Option (List Sexp)
  | .nil => some []
  | .cons h t => match elems t with
    | some xs => some (h :: xs)
    | none => none
  | _ => none

mutual
def items (ρ : Binding) : Tmpl → Option (List Sexp)
  | .lit a => some [.atom a]
  | .unquote e => (ρ.value e).map (fun v => [v])
  | .splice e => (ρ.value e).bind elems
  | .list ts => (itemsL ρ ts).map (fun xs => [ofList xs])
  | .arr ts => (itemsL ρ ts).map (fun xs => [.arr (ofList xs)])
  | .hash ty kvs => (itemsKV ρ kvs).bind (fun xs => (ρ.mkHash ty xs).map (fun h => [h]))
def itemsL (ρ : Binding) : List Tmpl → Option (List Sexp)
  | [] => some []
  | t :: ts => do
    let a ← items ρ t
    let b ← itemsL ρ ts
    some (a ++ b)
def itemsKV (ρ : Binding) : List (Tmpl × Tmpl) → Option (List Sexp)
  | [] => some []
  | (k, v) :: r => do
    let a ← items ρ k
    let b ← items ρ v
    let c ← itemsKV ρ r
    some (a ++ b ++ c)
end

def subst (ρ : Binding) : Tmpl → Option Sexp
  | .splice _ => none
  | t => match items ρ t with
    | some [v] => some v
    | _ => none

/-! ### Every evaluation builds fresh containers
"A syntax-quoted template evaluates to exactly the template with …" holds for **every**
evaluation of the template, whatever the program did with the results of earlier evaluations.
Lists are immutable, arrays and hashes are not (`aset`, `hset`): so the arrays and hashes a
template is written with have to be built anew by each evaluation. Stated as a history: the same
template is evaluated once per element of `μs`; after each evaluation the program mutates, in
place and innermost first, every container the template itself built (the containers inside
the *values* of unquoted expressions are the program's own objects and are shared, as values
are). Every evaluation must still yield the substitution, and each result must end as the
substitution changed by its own mutation only. -/

/-- What an in-place mutation does to an array (given by its elements) and to a hash. -/
structure Mutation where
  arr : List Sexp → List Sexp
  hash : Sexp → Sexp

mutual
/-- `items` after the containers built by the template were mutated by `μ`, innermost first -/
def itemsMut (ρ : Binding) (μ : Mutation) : Tmpl → Option (List Sexp)
  | .lit a => some [.atom a]
  | .unquote e => (ρ.value e).map (fun v => [v])
  | .splice e => (ρ.value e).bind elems
  | .list ts => (itemsLMut ρ μ ts).map (fun xs => [ofList xs])
  | .arr ts => (itemsLMut ρ μ ts).map (fun xs => [.arr (ofList (μ.arr xs))])
  | .hash ty kvs => (itemsKVMut ρ μ kvs).bind (fun xs => (ρ.mkHash ty xs).map (fun h => [μ.hash h]))
def itemsLMut (ρ : Binding) (μ : Mutation) : List Tmpl → Option (List Sexp)
  | [] => some []
  | t :: ts => do
    let a ← itemsMut ρ μ t
    let b ← itemsLMut ρ μ ts
    some (a ++ b)
def itemsKVMut (ρ : Binding) (μ : Mutation) : List (Tmpl × Tmpl) → Option (List Sexp)
  | [] => some []
  | (k, v) :: r => do
    let a ← itemsMut ρ μ k
    let b ← itemsMut ρ μ v
    let c ← itemsKVMut ρ μ r
    some (a ++ b ++ c)
end

/-- the value of `^t` after the program mutated the containers the template built -/
def substMut (ρ : Binding) (μ : Mutation) : Tmpl → Option Sexp
  | .splice _ => none
  | t => match itemsMut ρ μ t with
    | some [v] => some v
    | _ => none

/-- One evaluation per mutation: what each evaluation yields, and what each result has
become at the end. Earlier mutations do not show in later evaluations. -/
def history (ρ : Binding) (μs : List Mutation) (t : Tmpl) : Option (List Sexp × List Sexp) :=
  (subst ρ t).bind (fun v => (μs.mapM (fun μ => substMut ρ μ t)).map (fun fs => (μs.map (fun _ => v), fs)))

mutual
/-- The containers one evaluation of `t` has to build, innermost first: one per array / hash
sub-template (none for the values of unquoted expressions). -/
def built (ρ : Binding) : Tmpl → Option (List Sexp)
  | .lit _ => some []
  | .unquote _ => some []
  | .splice _ => some []
  | .list ts => builtL ρ ts
  | .arr ts => do
    let b ← builtL ρ ts
    let xs ← itemsL ρ ts
    some (b ++ [.arr (ofList xs)])
  | .hash ty kvs => do
    let b ← builtKV ρ kvs
    let xs ← itemsKV ρ kvs
    let h ← ρ.mkHash ty xs
    some (b ++ [h])
def builtL (ρ : Binding) : List Tmpl → Option (List Sexp)
  | [] => some []
  | t :: ts => do
    let a ← built ρ t
    let b ← builtL ρ ts
    some (a ++ b)
def builtKV (ρ : Binding) : List (Tmpl × Tmpl) → Option (List Sexp)
  | [] => some []
  | (k, v) :: r => do
    let a ← built ρ k
    let b ← built ρ v
    let c ← builtKV ρ r
    some (a ++ b ++ c)
end

mutual
/-- number of array / hash sub-templates -/
def Tmpl.containers : Tmpl → Nat
  | .lit _ => 0
  | .unquote _ => 0
  | .splice _ => 0
  | .list ts => containersL ts
  | .arr ts => containersL ts + 1
  | .hash _ kvs => containersKV kvs + 1
def containersL : List Tmpl → Nat
  | [] => 0
  | t :: ts => t.containers + containersL ts
def containersKV : List (Tmpl × Tmpl) → Nat
  | [] => 0
  | (k, v) :: r => k.containers + v.containers + containersKV r
end

/-! ### How a template is written down
The reader turns `~e` into `(unquote e)` and `~@e` into `(unquote-splicing e)`
(parser.go, TokenTilde / TokenTildeAt); a hash literal holds its keys in order. -/

mutual
def Tmpl.toSexp : Tmpl → Sexp
  | .lit a => .atom a
  | .unquote e => .cons (.atom (.sym "unquote")) (.cons e .nil)
  | .splice e => .cons (.atom (.sym "unquote-splicing")) (.cons e .nil)
  | .list ts => toSexpL ts
  | .arr ts => .arr (toSexpL ts)
  | .hash ty kvs => .hash ty (toSexpKV kvs)
def toSexpL : List Tmpl → Sexp
  | [] => .nil
  | t :: ts => .cons t.toSexp (toSexpL ts)
def toSexpKV : List (Tmpl × Tmpl) → Sexp
  | [] => .nil
  | (k, v) :: r => .cons k.toSexp (.cons v.toSexp (toSexpKV r))
end

/-- A literal two-element list whose head is the symbol `unquote` / `unquote-splicing` is
written exactly like an unquote; such a list cannot be meant literally. -/
def looksLikeUnquote : List Tmpl → Bool
  | [.lit (.sym n), _] => n = "unquote" || n = "unquote-splicing"
  | _ => false

mutual
/-- Unambiguous templates: no literal list reads as an unquote form. -/
def Tmpl.WF : Tmpl → Bool
  | .lit _ => true
  | .unquote _ => true
  | .splice _ => true
  | .list ts => !looksLikeUnquote ts && wfL ts
  | .arr ts => wfL ts
  | .hash _ kvs => wfKV kvs
def wfL : List Tmpl → Bool
  | [] => true
  | t :: ts => t.WF && wfL ts
def wfKV : List (Tmpl × Tmpl) → Bool
  | [] => true
  | (k, v) :: r => k.WF && v.WF && wfKV r
end

end ZygoVerif.Subst
