/-
C12, history-independence of literals (specification side, written from the property text: "numeric literals in
every supported notation denote their exact mathematical value" — a value is attached to the SPELLING, so it cannot
depend on what the same interpreter has read before).

A reader may keep state between the texts it is handed (the real one does: one `Parser` per interpreter, shared by
`read`, `eval`, `source`, `EvalString`). `Reader.run` threads that state through a history of texts. THE LAW
`HistoryIndependent`: the answer to every text of every history is the answer a reader in its initial state gives
to that text alone. The specification's reader (`specReader`: `DataValue.require`, i.e. `mathValue` + range) has no
state and satisfies the law by construction; the `rt H` ops of the correspondence check the REAL reader against
`specAnswers` step by step (impl vs spec), and Props/C12 proves the law for the reader model.
Core-only (the driver links it).
-/
import ZygoVerif.Spec.DataValue
namespace ZygoVerif.Spec.LiteralHistory
open ZygoVerif.Spec.DataValue

/-- a reader with memory: state before, text ↦ answer, state after -/
structure Reader (σ α : Type) where
  read : σ → List Char → α × σ

/-- the answers to the texts of a history, read one after the other starting in state `s` -/
def Reader.run {σ α : Type} (R : Reader σ α) : σ → List (List Char) → List α
  | _, [] => []
  | s, t :: ts => (R.read s t).1 :: R.run (R.read s t).2 ts

/-- **The law**: what a text denotes is a function of the text alone — in every history, every text gets the
answer the reader gives it in its initial state. -/
def HistoryIndependent {σ α : Type} (R : Reader σ α) (s0 : σ) : Prop :=
  ∀ hist : List (List Char), R.run s0 hist = hist.map (fun t => (R.read s0 t).1)

/-- a reader whose ANSWER never looks at the state obeys the law, whatever it does with the state -/
theorem historyIndependent_of_answer_stateless {σ α : Type} (R : Reader σ α)
    (h : ∀ s s' t, (R.read s t).1 = (R.read s' t).1) (s0 : σ) : HistoryIndependent R s0 := by
  intro hist
  suffices H : ∀ s, R.run s hist = hist.map (fun t => (R.read s0 t).1) from H s0
  induction hist with
  | nil => intro s; rfl
  | cons t ts ih =>
    intro s
    simp only [Reader.run, List.map_cons]
    rw [ih, h s s0 t]

/-- the specification's reader: the verdict of `require` on the spelling; no state -/
def specReader : Reader Unit Verdict := ⟨fun _ t => (require t, ())⟩

/-- what the specification demands of a history of spellings (the spec column of `rt H`) -/
def specAnswers (hist : List (List Char)) : List Verdict := specReader.run () hist

theorem spec_history_independent : HistoryIndependent specReader () :=
  historyIndependent_of_answer_stateless specReader (fun _ _ _ => rfl) ()

theorem specAnswers_eq_map (hist : List (List Char)) : specAnswers hist = hist.map require :=
  spec_history_independent hist

end ZygoVerif.Spec.LiteralHistory
