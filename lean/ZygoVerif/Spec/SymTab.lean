/-
Specification of property C19, written from the property text alone (no reference to how
the Go code or the model computes anything):

  "Two symbols are equal exactly when their names are equal: the same name always yields
   the same symbol and different names never yield equal symbols, in the original
   interpreter and in every duplicate or clone made from it, in any order of creation. A
   generated symbol is different from every symbol that exists when it is generated and
   from every other generated symbol, whatever names scripts have interned before."

A *symbol* is what the interpreter hands out: a name and a number; the interpreter compares
and hashes symbols by number (`compareSymbol`, `hashHelper`). The spec judges a *trace*:
the list of symbols handed out, in order, by any members of a family, together with the
final name→number and number→name tables. It is a decidable predicate (`judge`), so the
very same definition is (a) what the theorems of Props/C19.lean establish for every trace
of the model and (b) what `zydrv` evaluates on traces of the real implementation.
Core Lean only.
-/
namespace ZygoVerif.SymSpec

abbrev Name := List Nat

structure Sym where
  num : Nat
  name : Name
deriving Repr, DecidableEq

/-- Symbol equality as the interpreter decides it (`(== a b)`, hash keys): by number. -/
def Sym.same (a b : Sym) : Bool := a.num == b.num

/-- One observable event of a history. -/
inductive Ev where
  /-- a name was interned (MakeSymbol, str2sym, reading a symbol token) and `got` came back -/
  | interned (requested : Name) (got : Sym)
  /-- a symbol was generated (GenSymbol, gensym, a macro calling gensym, an anonymous
  function's name); `existedBefore`: its name or its number was already in the tables -/
  | generated (got : Sym) (existedBefore : Bool)
  /-- the script compared the symbols interned for names `a` and `b` with `==` -/
  | eqTest (a b : Name) (result : Bool)
  /-- the script stored 1 under symbol `a`, then 2 under symbol `b`, in a fresh hash and
  looked symbol `c` up with default 0 -/
  | hashTest (a b c : Name) (result : Nat)
  /-- anything else (a member was created, …) -/
  | other
deriving Repr, DecidableEq

def Ev.sym? : Ev → Option Sym
  | .interned _ g => some g
  | .generated g _ => some g
  | _ => none

/-- "the same name always yields the same symbol": among the symbols handed out, equal
names imply equal numbers. -/
def sameNameSameSymbol (syms : List Sym) : Bool :=
  syms.all fun a => syms.all fun b => !(a.name == b.name) || a.same b

/-- "different names never yield equal symbols". -/
def differentNamesDifferentSymbols (syms : List Sym) : Bool :=
  syms.all fun a => syms.all fun b => (a.name == b.name) || !(a.same b)

/-- Interning a name yields a symbol of that name. -/
def internedNameOk (tr : List Ev) : Bool :=
  tr.all fun e => match e with
    | .interned req got => got.name == req
    | _ => true

/-- "A generated symbol is different from every symbol that exists when it is generated":
not in the tables before (`existedBefore = false`) and different — by number and by name —
from every symbol handed out earlier; "and from every other generated symbol": the later
ones are covered because they are judged against all earlier symbols in turn. -/
def gensymFreshFrom (seen : List Sym) : List Ev → Bool
  | [] => true
  | .generated got ex :: rest =>
    !ex && seen.all (fun s => !(s.same got) && !(s.name == got.name)) && gensymFreshFrom (got :: seen) rest
  | .interned _ got :: rest => gensymFreshFrom (got :: seen) rest
  | _ :: rest => gensymFreshFrom seen rest

def gensymFresh (tr : List Ev) : Bool := gensymFreshFrom [] tr

/-- `==` on symbols and hash lookup by symbol behave as equality of names. -/
def scriptEqOk (tr : List Ev) : Bool :=
  tr.all fun e => match e with
    | .eqTest a b r => r == (a == b)
    | .hashTest a b c r => r == (if c == b then 2 else if c == a then 1 else 0)
    | _ => true

/-- The two tables, dumped as lists of pairs, are a bijection between names and numbers and
mutually inverse: each is functional, and `rev` is exactly the converse of `sym`. -/
def functional {α β} [BEq α] [BEq β] (l : List (α × β)) : Bool :=
  l.all fun p => l.all fun q => !(p.1 == q.1) || p.2 == q.2

def tablesBijective (sym : List (Name × Nat)) (rev : List (Nat × Name)) : Bool :=
  functional sym && functional rev &&
  sym.all (fun p => rev.contains (p.2, p.1)) && rev.all (fun p => sym.contains (p.2, p.1))

inductive Verdict where
  | ok
  | bad (clause : String)
deriving Repr, DecidableEq

def Verdict.toString : Verdict → String
  | .ok => "ok"
  | .bad c => "bad:" ++ c

/-- The property, as a decision procedure over one observed history. -/
def judge (tr : List Ev) (sym : List (Name × Nat)) (rev : List (Nat × Name)) : Verdict :=
  let syms := tr.filterMap Ev.sym?
  if !internedNameOk tr then .bad "interned-symbol-has-another-name"
  else if !sameNameSameSymbol syms then .bad "same-name-different-symbols"
  else if !differentNamesDifferentSymbols syms then .bad "different-names-same-symbol"
  else if !gensymFresh tr then .bad "generated-symbol-not-fresh"
  else if !scriptEqOk tr then .bad "symbol-equality-or-hash-lookup-not-by-name"
  else if !tablesBijective sym rev then .bad "tables-not-mutually-inverse"
  else .ok

end ZygoVerif.SymSpec
