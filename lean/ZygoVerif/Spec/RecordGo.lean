/-
Specification of C10, written from the property text, independent of the walk's mechanics
(no dedup cache, no targets, no flattened field table, no call depth):

* a record denotes a Go object whose identity IS the record's identity (object label = record id),
  so a record referenced twice denotes one shared object by construction;
* every field named in the record holds exactly the record's value; fields not named are zero;
* a field is found by json tag, else by its name (also with the first letter capitalised),
  searching through embedded structs; where two declarations answer to the same key the one
  declared later is meant;
* a key that names no field, or a value of the wrong kind for the field, is an error (`none`);
  numeric conversions are accepted only when exact.

`strict = false` marks conversions the property does not promise (pairs outside "every supported
field kind"): there the implementation may either produce exactly this value or report an error —
but never anything else ("never silently dropped").

The data types (`Ty`, `World`, `Sx`, `GV`) are shared with the model; nothing else is.
-/
import ZygoVerif.Model.ToGo
namespace ZygoVerif.SpecToGo
open ZygoVerif.ToGo

/-- search the declarations from the last to the first; inside an embedded struct before the
embedded field itself (a later declaration shadows an earlier one). -/
def searchFields (w : World) (sub : List Field → String → Option (List Nat × Ty)) (k : String) :
    List (Field × Nat) → Option (List Nat × Ty)
  | [] => none
  | (f, i) :: rest =>
    let inner : Option (List Nat × Ty) :=
      if f.anon then match f.ty with
        | .struct s => match w.find s with
          | some d => (sub d.fields k).map (fun r => (i :: r.1, r.2))
          | none => none
        | _ => none
      else none
    match inner with
    | some r => some r
    | none =>
      if (if f.tag != "" then f.tag else f.name) == k then some ([i], f.ty)
      else searchFields w sub k rest

def findExact (w : World) : Nat → List Field → String → Option (List Nat × Ty)
  | 0, _, _ => none
  | n+1, fs, k => searchFields w (findExact w n) k fs.zipIdx.reverse

def findField (w : World) (fs : List Field) (key : List Nat) : Option (List Nat × Ty) :=
  if key.isEmpty then none else
  match findExact w 8 fs (bytesToString key) with
  | some r => some r
  | none => findExact w 8 fs (bytesToString (upperFirst key))

/-- (value, strict) for scalars; `none` = must be an error -/
def atomSpec (w : World) (x : Sx) (T : Ty) : Option (GV × Bool) :=
  match x, T with
  | .nil, .other => none
  | .nil, t => some (zero w 8 t, true)
  | .int v, .int k => if inIntRange k.bits v then some (.int k v, true) else none
  | .int v, .f64 => (intToF64? v).map (fun b => (.flt b, true))
  | .uint v, .uint k => if v < 2 ^ k.bits then some (.uint k v, true) else none
  | .flt b, .f64 => some (.flt b, true)
  | .flt b, .int .i64 => (f64ToInt? b).map (fun v => (.int .i64 v, false))
  | .str b, .str => some (.str b, true)
  | .sym b, .str => some (.str b, false)
  | .char v, .int .i32 => some (.int .i32 v, true)
  | .bool b, .bool => some (.bool b, true)
  | .raw b, .bytes => some (.bytes (some b), true)
  | .time s, .time => some (.time s, true)
  -- an interface{} field can hold any scalar
  | .char v, .eface => some (.iface (some (.int .i32 v)), true)
  | .bool b, .eface => some (.iface (some (.bool b)), true)
  | .raw b, .eface => some (.iface (some (.bytes (some b))), true)
  | .time s, .eface => some (.iface (some (.time s)), true)
  | .int v, .eface => some (.iface (some (.int .i64 v)), false)
  | .uint v, .eface => some (.iface (some (.uint .u64 v)), false)
  | .flt b, .eface => some (.iface (some (.flt b)), false)
  | .str b, .eface => some (.iface (some (.str b)), false)
  | .sym b, .eface => some (.iface (some (.str b)), false)
  | _, _ => none

structure Out where
  v : GV
  objs : List (Nat × GV)      -- object label (= record id) ↦ struct value
  strict : Bool
  textual : Bool               -- a record's printed text was stored in a string field

abbrev Den := List (Nat × GV) → Sx → Ty → GV → Option Out

def denList (rec : Den) (e : Ty) (z : GV) : List (Nat × GV) → List Sx → Option (List GV × List (Nat × GV) × Bool × Bool)
  | objs, [] => some ([], objs, true, false)
  | objs, x :: xs => do
    let o ← rec objs x e z
    let (vs, objs2, s, op) ← denList rec e z o.objs xs
    pure (o.v :: vs, objs2, o.strict && s, o.textual || op)

def denFields (w : World) (rec : Den) (fs : List Field) : List (Nat × GV) → GV → List (Key × Sx) → Option (GV × List (Nat × GV) × Bool × Bool)
  | objs, sv, [] => some (sv, objs, true, false)
  | objs, sv, (k, x) :: rest => do
    let b ← keyBytes k
    let (path, ty) ← findField w fs b
    let cur ← getPath sv path
    let o ← rec objs x ty cur
    let sv1 ← setPath sv path o.v
    let (sv2, objs2, s, op) ← denFields w rec fs o.objs sv1 rest
    pure (sv2, objs2, o.strict && s, o.textual || op)

def denMap (w : World) (rec : Den) (kt vt : Ty) : List (Nat × GV) → List (GV × GV) → List (Key × Sx) → Option (List (GV × GV) × List (Nat × GV) × Bool × Bool)
  | objs, es, [] => some (es, objs, true, false)
  | objs, es, (k, x) :: rest => do
    let kg ← match kt, k with
      | .str, .sym b => some (GV.str b)
      | .str, .str b => some (GV.str b)
      | .int .i64, .int v => some (GV.int .i64 v)
      | _, _ => none
    let o ← rec objs x vt (zero w 1 vt)
    let (es2, objs2, s, op) ← denMap w rec kt vt o.objs (mapSet es kg o.v sameKey) rest
    pure (es2, objs2, o.strict && s, o.textual || op)

def denStep (w : World) (rec : Den) : Den := fun objs x T cur =>
  match x with
  | .arr xs =>
    match T with
    | .slice e => do
      let (vs, objs2, s, op) ← denList rec e (zero w 8 e) objs xs
      pure ⟨.slice (some vs), objs2, s, op⟩
    | .bytes => do
      let (vs, objs2, _, op) ← denList rec (.uint .u8) (.uint .u8 0) objs xs
      let b ← packBytes vs
      pure ⟨.bytes (some b), objs2, vs.isEmpty, op⟩
    | _ => none
  | .hash id tn kvs =>
    if tn == "hash" then
      match T with
      | .map kt vt =>
        let supported : Bool := match kt, vt with
          | .str, .str => true | .str, .f64 => true | .int .i64, .f64 => true
          | .str, .iface _ => true | .str, .eface => true | _, _ => false
        if !supported then none else do
        let (es, objs2, s, op) ← denMap w rec kt vt objs [] kvs
        pure ⟨.map (some es), objs2, s, op⟩
      | _ => none
    else
      match T with
      | .str => some ⟨.printed, objs, false, true⟩
      | _ =>
      match w.lookupReg tn with
      | none => none
      | some d =>
        let asObject : Option GV :=
          match T with
          | .ptr s => if s == d.name then some (.ptr (some id)) else none
          | .iface i => if w.implements i d.name then some (.iface (some (.ptr (some id)))) else none
          | .eface => some (.iface (some (.ptr (some id))))
          | _ => none
        match asObject with
        | some r =>
          -- the object of this record: made once, shared by every reference to the record
          if objs.any (·.1 == id) then some ⟨r, objs, true, false⟩ else do
          let (sv, objs2, s, op) ← denFields w rec d.fields objs (zero w 8 (.struct d.name)) kvs
          pure ⟨r, objs2 ++ [(id, sv)], s, op⟩
        | none =>
          if T == .struct d.name then do
            let (sv, objs2, s, op) ← denFields w rec d.fields objs cur kvs
            pure ⟨sv, objs2, s, op⟩
          else none
  | _ => (atomSpec w x T).map (fun r => ⟨r.1, objs, r.2, false⟩)

def den (w : World) : Nat → Den
  | 0 => fun _ _ _ _ => none
  | n+1 => denStep w (den w n)

/-- the top record converts to a pointer to its registered struct -/
def denTop (w : World) (fuel : Nat) (want : Option String) (x : Sx) : Option Out :=
  match x with
  | .hash _ tn _ =>
    match w.lookupReg tn with
    | none => none
    | some d => if want.any (· != d.name) then none else den w fuel [] x (.ptr d.name) (.ptr none)
  | _ => none

end ZygoVerif.SpecToGo
