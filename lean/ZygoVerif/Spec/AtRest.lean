/-
Spec/AtRest.lean — C04 stated on what can be observed of an interpreter (written from the
property text; independent of generator and VM).

An interpreter serves a history of program texts. After every evaluation we see: the outcome
class, the four stack depths (data, scope, address, loop) and the printed value.

  "After any evaluation that returns a value, the interpreter is back at rest: no leftover
   operands, scopes, call frames or loop records remain"
        — `restAfterSuccess`: a successful evaluation ends with the depths of the fresh
          interpreter;
  "so evaluating forms one at a time gives the same results as evaluating them together"
        — `sameResults`: a second interpreter given the same forms one by one succeeds exactly
          when the first (given each text as a whole) succeeds, with the same last value;
  "and an idle interpreter does not grow with the number of evaluations it has served"
        — `noGrowth`: the largest depths seen after any successful evaluation of the whole
          history (served N times over) are the depths of the fresh interpreter;
  "Evaluating empty input returns nil, never a stale value from an earlier evaluation"
        — `emptyIsNil`: every empty evaluation succeeds with nil.

A Go panic that reaches the host is never an acceptable outcome here: the nested-`Run`
imbalance ends in exactly that (the interpreter is left unusable, the following empty
evaluation does not return nil). `contract` carries breaches of the calling contract seen
by the pre/post hooks (the hypothesis of `checker_sound` about builtins); none may occur.
Core-only.
-/
namespace ZygoVerif.AtRest

structure Depths where
  data : Nat
  scope : Nat
  addr : Nat
  loop : Nat
deriving DecidableEq, Repr, Inhabited

inductive Cls where
  | ok | err | cerr | panic | dead
  | timeout | skipped    -- the harness's call budget ran out: nothing is demanded from there on
deriving DecidableEq, Repr, Inhabited

structure Obs where
  cls : Cls
  depths : Option Depths     -- none after a panic
  val : String
deriving Repr, Inhabited

/-- One text: its evaluation(s) — one when given as a whole, one per form otherwise — and the
empty evaluation issued right after. -/
structure TextObs where
  evals : List Obs
  empty : Obs
deriving Repr, Inhabited

structure Serve where
  init : Depths
  texts : List TextObs
  max : Depths
  contract : String
deriving Repr, Inhabited

def showD (d : Depths) : String := s!"{d.data},{d.scope},{d.addr},{d.loop}"

/-- The interpreter is at rest when its four stacks are as deep as when it was created. -/
def atRest (init d : Depths) : Bool := d == init

def restAfterSuccess (init : Depths) (what : String) (o : Obs) : List String :=
  match o.cls, o.depths with
  | .ok, some d => if atRest init d then [] else [s!"{what}: returned a value but left depths {showD d} (at rest: {showD init})"]
  | .ok, none => [s!"{what}: no depths"]
  | .panic, _ => [s!"{what}: Go panic reached the host"]
  | .dead, _ => []
  | _, _ => []

def emptyIsNil (init : Depths) (what : String) (o : Obs) : List String :=
  match o.cls with
  | .ok => (if o.val == "nil" then [] else [s!"{what}: empty input returned {o.val}, not nil"])
           ++ restAfterSuccess init what o
  | .dead => [s!"{what}: the interpreter did not survive, empty input cannot be evaluated"]
  | .panic => [s!"{what}: empty input panicked"]
  | .timeout => []
  | .skipped => []
  | _ => [s!"{what}: empty input did not return nil"]

def judgeText (init : Depths) (tag : String) (i : Nat) (t : TextObs) : List String :=
  (t.evals.zipIdx.map (fun (o, j) => restAfterSuccess init s!"{tag} text {i} eval {j}" o)).flatten
  ++ emptyIsNil init s!"{tag} text {i} empty" t.empty

def judgeServe (tag : String) (s : Serve) : List String :=
  (s.texts.zipIdx.map (fun (t, i) => judgeText s.init tag i t)).flatten
  ++ (if atRest s.init s.max then [] else [s!"{tag}: grew to depths {showD s.max} over the history (fresh: {showD s.init})"])
  ++ (if s.contract == "-" then [] else [s!"{tag}: calling contract breached by {s.contract}"])

def allOk (t : TextObs) : Bool := !t.evals.isEmpty && t.evals.all (fun o => o.cls == .ok)

/-- `sameResults`, text by text while both interpreters have succeeded on everything so far. -/
def sameResults : Nat → List TextObs → List TextObs → List String
  | i, a :: as, b :: bs =>
    match allOk a, allOk b with
    | true, true =>
      let va := (a.evals.getLast?.map (·.val)).getD ""
      let vb := (b.evals.getLast?.map (·.val)).getD ""
      (if va == vb then [] else [s!"text {i}: together gives {va}, one at a time gives {vb}"])
      ++ sameResults (i + 1) as bs
    | false, false => []
    | true, false => [s!"text {i}: succeeds as a whole but not form by form"]
    | false, true => [s!"text {i}: succeeds form by form but not as a whole"]
  | _, _, _ => []

/-- Everything the property demands of the two serves of one history. `[]` = holds. -/
def judge (together separate : Serve) : List String :=
  judgeServe "together" together ++ judgeServe "one-at-a-time" separate
  ++ sameResults 0 together.texts separate.texts

end ZygoVerif.AtRest
