/-
Specification for C06, written from the property text (not from pratt.go):

  "Every infix expression inside curly braces is translated to the s-expression determined
   by the documented binding powers and associativity: assignment (lowest, right-associative),
   comma, or/and, comparisons, + -, * / mod, ** (right-associative), not, then indexing,
   slicing, field access and parenthesised calls (tightest). … statements separated by
   semicolons or newlines run in order, and the block's value is that of its last statement."

The documented levels are DATA (`documented`), loosest first. The parser over them is the
textbook stratified (one nonterminal per level) recursive descent:

    E_k  ::=  E_{k+1} ( op_k E_{k+1} )*            left-associative level k
    E_k  ::=  E_{k+1} ( op_k E_k )?                right-associative level k
    E_top ::= operand ( [selector] | .field )*     postfix level (a level whose operators take no right operand)
    operand ::= prefix-op E_{above the prefix operator's level} | atom
    atom ::= symbol | literal | (s-expression call) | {nested block}

A parenthesised call `(f x)` and a nested `{…}` block are atoms of the enclosing block, which
is what makes them bind tightest. No binding-power NUMBER occurs in this file.

What the property text does not fix is decided here as follows (documented choices):
 * `and`/`or` group to the right (value-equivalent for short-circuit operators);
 * `++`/`--` are postfix members of the assignment level, `+=`/`-=` binary members;
 * `*` is also a prefix operator (pointer dereference) binding like `not`;
 * input that is not an expression of the grammar is totalised the way the implementation
   does it, so that the agreement theorem needs no well-formedness hypothesis: an operator
   in operand position is an atom; an operand missing at the end of the input is the last
   token of the input; a prefix-only operator in operator position replaces its left operand
   (`Member.drop`); a juxtaposed operand ends the expression (it starts the next statement).
Core Lean only.
-/
import ZygoVerif.Model.Sx
namespace ZygoVerif.Stratified
open ZygoVerif.Pratt (Sx)

/-- An operator of a level. -/
inductive Member where
  | op (name out : String)    -- binary operator symbol `name`; prefix form `(out l r)`
  | commaTok (out : String)   -- the `,` token; `(out l r)`
  | post (name : String)      -- postfix operator symbol; `(name l)`
  | index                     -- any array token `[…]` after an operand; `(arrayidx l selector)`
  | field                     -- any dot-symbol that is not an operator; `(hashidx l tok)`
  | drop (name : String)      -- prefix-only operator met in operator position (malformed input)
  | pre (name out : String)   -- prefix operator: its operand is parsed at the levels ABOVE this one; `(out x)`
deriving DecidableEq, Repr

structure Level where
  members : List Member
  right : Bool                -- right-associative?
deriving DecidableEq, Repr

abbrev Grammar := List Level

/-- The documented levels, loosest first. Members of a level are listed in alphabetical
order of constructor then name (the order is immaterial; it makes `decide` comparisons exact). -/
def documented : Grammar := [
  -- assignment (lowest, right-associative); `=`/`:=` are written `set` in prefix form
  ⟨[.op "+=" "+=", .op "-=" "-=", .op ":=" "set", .op "=" "set", .post "++", .post "--"], true⟩,
  -- comma
  ⟨[.op "comma" "comma", .commaTok "comma"], false⟩,
  -- or/and
  ⟨[.op "and" "and", .op "or" "or"], true⟩,
  -- comparisons
  ⟨[.op "!=" "!=", .op "<" "<", .op "<=" "<=", .op "==" "==", .op ">" ">", .op ">=" ">="], false⟩,
  -- + -
  ⟨[.op "+" "+", .op "-" "-"], false⟩,
  -- * / mod
  ⟨[.op "*" "*", .op "/" "/", .op "mod" "mod"], false⟩,
  -- ** (right-associative)
  ⟨[.op "**" "**"], true⟩,
  -- not (and prefix `*`)
  ⟨[.drop "not", .pre "*" "*", .pre "not" "not"], false⟩,
  -- indexing, slicing, field access (tightest)
  ⟨[.index, .field], false⟩]

/-- What a level does with a token it owns. -/
inductive Act where
  | bin (out : String) | post (name : String) | index | field | drop
deriving DecidableEq, Repr

def Member.opName? : Member → Option String
  | .op n _ | .post n | .drop n => some n
  | _ => none

/-- Is `n` the name of an operator (in operator position) somewhere in the grammar? -/
def known (G : Grammar) (n : String) : Bool :=
  G.any (fun lv => lv.members.any (fun m => m.opName? == some n))

def matchMember (G : Grammar) (t : Sx) : Member → Option Act
  | .op n out => if t.isNamed n then some (.bin out) else none
  | .commaTok out => if t.isComma then some (.bin out) else none
  | .post n => if t.isNamed n then some (.post n) else none
  | .drop n => if t.isNamed n then some .drop else none
  | .index => match t with
    | .arr _ => some .index
    | _ => none
  | .field => match t with
    | .dot n => if known G n then none else some .field
    | _ => none
  | .pre _ _ => none

/-- The action of level `lv` on token `t`, if `t` is one of its operators. -/
def actOf (G : Grammar) (lv : Level) (t : Sx) : Option Act :=
  lv.members.findSome? (matchMember G t)

/-- Is `t` a prefix operator? Returns its prefix-form name and the levels its operand is parsed at. -/
def prefixOf (t : Sx) : Grammar → Option (String × Grammar)
  | [] => none
  | lv :: rest =>
    match lv.members.findSome? (fun m => match m with
        | .pre n out => if t.isNamed n then some out else none
        | _ => none) with
    | some out => some (out, rest)
    | none => prefixOf t rest

def splitColonTail : List Sx → List Sx
  | [] => []
  | .lab n :: ts => .sym n :: .sym ":" :: splitColonTail ts
  | t :: ts => t :: splitColonTail ts


/-- The level (index, loosest = 0) that owns token `t` as an operator, and what it does. -/
def levelOf (G : Grammar) (t : Sx) : Grammar → Nat → Option (Nat × Act)
  | [], _ => none
  | lv :: rest, k => match actOf G lv t with
    | some a => some (k, a)
    | none => levelOf G t rest (k+1)

/-- Token lists the stratified grammar can speak about. An operator that takes no right
operand (`++`, `--`, or a prefix-only operator met in operator position) and is directly
followed by an operator of a TIGHTER level is not an expression of any level of the grammar
(`a ++ * b`); the specification is silent about such input. -/
def adjacentOK (G : Grammar) : List Sx → Bool
  | t :: u :: rest =>
    (match levelOf G t G 0, levelOf G u G 0 with
      | some (k, .post _), some (j, _) => j ≤ k
      | some (k, .drop), some (j, _) => j ≤ k
      | _, _ => true) && adjacentOK G (u :: rest)
  | _ => true

mutual
/-- `adjacentOK` for a token list and for every selector inside it. -/
def coveredList (G : Grammar) : List Sx → Bool
  | [] => true
  | t :: ts => covered G t && coveredList G ts
def covered (G : Grammar) : Sx → Bool
  | .arr xs => adjacentOK G (splitColonTail xs) && coveredList G xs
  | _ => true
end

def inScope (G : Grammar) (ts : List Sx) : Bool := adjacentOK G ts && coveredList G ts

abbrev Res := Option (Sx × List Sx)

mutual
/-- `strat G E f lvls ts`: parse one expression at the loosest level of `lvls` (a suffix of
`G`). `E` is the token that stands in for an operand missing at the end of the input. -/
def strat (G : Grammar) (E : Sx) : Nat → Grammar → List Sx → Res
  | 0, _, _ => none
  | f+1, [], ts => operand G E f ts
  | f+1, lv :: rest, ts =>
    match strat G E f rest ts with
    | none => none
    | some (x, ts1) => chain G E f lv rest x ts1

/-- The operators of level `lv` following the operand `x`. -/
def chain (G : Grammar) (E : Sx) : Nat → Level → Grammar → Sx → List Sx → Res
  | 0, _, _, _, _ => none
  | _+1, _, _, x, [] => some (x, [])
  | f+1, lv, rest, x, t :: ts =>
    match actOf G lv t with
    | none => some (x, t :: ts)
    | some (.bin out) =>
      if lv.right then
        match strat G E f (lv :: rest) ts with
        | none => none
        | some (y, ts1) => some (.list [.sym out, x, y], ts1)
      else
        match strat G E f rest ts with
        | none => none
        | some (y, ts1) => chain G E f lv rest (.list [.sym out, x, y]) ts1
    | some (.post name) => chain G E f lv rest (.list [.sym name, x]) ts
    | some .field => chain G E f lv rest (.list [.sym "hashidx", x, t]) ts
    | some .index =>
      match selector G f t with
      | none => none
      | some sel => chain G E f lv rest (.list [.sym "arrayidx", x, sel]) ts
    | some .drop => chain G E f lv rest t ts

def operand (G : Grammar) (E : Sx) : Nat → List Sx → Res
  | 0, _ => none
  | _+1, [] => some (E, [])
  | f+1, t :: ts =>
    match prefixOf t G with
    | some (out, above) =>
      match strat G E f above ts with
      | none => none
      | some (x, ts1) => some (.list [.sym out, x], ts1)
    | none => some (t, ts)

/-- One expression that must use all of `ts` (non-empty). -/
def single (G : Grammar) : Nat → List Sx → Option Sx
  | 0, _ => none
  | f+1, ts =>
    match strat G (ts.getLast?.getD .null) f G ts with
    | some (x, []) => some x
    | _ => none

/-- `a[i]`, `a[i:j]`, `a[:j]`, `a[i:]`: the selector with its parts parsed as expressions. -/
def selector (G : Grammar) : Nat → Sx → Option Sx
  | 0, _ => none
  | f+1, .arr xs =>
    let toks := splitColonTail xs
    let ncolon := (toks.filter (·.isNamed ":")).length
    if ncolon > 1 then none
    else if ncolon == 1 then
      let before := toks.takeWhile (fun t => !t.isNamed ":")
      let after := (toks.dropWhile (fun t => !t.isNamed ":")).tail
      match (if before.isEmpty then some [] else (single G f before).map ([·])) with
      | none => none
      | some s =>
        match (if after.isEmpty then some [] else (single G f after).map ([·])) with
        | none => none
        | some e => some (.arr (s ++ .sym ":" :: e))
    else if toks.length ≤ 1 then some (.arr toks)
    else
      match strat G (toks.getLast?.getD .null) f G toks with
      | none => none
      | some (x, []) => some (.arr [x])
      | some _ => some (.arr toks)     -- not a single expression: left as written
  | _+1, s => some s
end

def fuelFor (G : Grammar) (ts : List Sx) : Nat := (Pratt.sizeList ts + 2) * (G.length + 3)

/-- Parse one expression (loosest level) from the front of `ts`. -/
def parse (G : Grammar) (ts : List Sx) : Res :=
  strat G (ts.getLast?.getD .null) (fuelFor G ts) G ts

/-- The statements of a block, in order: expressions separated by `;` or by juxtaposition.
(A `;` where an expression should start is parsed as an operand; an expression that is just
`;` is no statement.) -/
def statements (G : Grammar) (E : Sx) : Nat → List Sx → Option (List Sx)
  | 0, _ => none
  | _+1, [] => some []
  | f+1, t :: ts =>
    match strat G E (fuelFor G (t :: ts)) G (t :: ts) with
    | none => none
    | some (x, rest) =>
      let rest := match rest with
        | u :: us => if u.isSemi then us else rest
        | [] => []
      (statements G E f rest).map (fun xs => if x.isSemi then xs else x :: xs)

def parseBlock (G : Grammar) (ts : List Sx) : Option (List Sx) :=
  statements G (ts.getLast?.getD .null) (ts.length + 1) ts

end ZygoVerif.Stratified
