/-
Specification for C07: comparison is the exact mathematical order of the operands'
values; arithmetic on integers is arithmetic in ℤ reduced modulo 2^64. Written from the
property text, not from the code: no `signum`, no subtraction-then-sign.
-/
import ZygoVerif.Model.Num
namespace ZygoVerif.Num

def ordToInt : Ordering → Int
  | .lt => -1
  | .eq => 0
  | .gt => 1

def cmpZ (a b : Int) : Ordering := if a < b then .lt else if b < a then .gt else .eq

/-- The assumed behaviour of IEEE-754 binary64 that the float theorems are relative to.
`cmp` is the mathematical order of two non-NaN floats (±0 identified, infinities at the
ends). These are *hypotheses* of theorems, never axioms; the driver samples them on
native floats (labelled a test). -/
structure IEEELaws (fs : FloatSem) where
  cmp : fs.F → fs.F → Ordering
  cmp_swap : ∀ a b, cmp a b = (cmp b a).swap
  cmp_self : ∀ a, cmp a a = .eq
  lt_iff : ∀ a b, fs.isNaN a = false → fs.isNaN b = false → fs.lt a b = (cmp a b == .lt)
  /-- the sign of an IEEE difference of two non-NaN operands is their order (gradual
  underflow: `a - b = 0` only if `a = b`; `Inf - Inf = NaN` has no sign and they are equal) -/
  signum_sub : ∀ a b, fs.isNaN a = false → fs.isNaN b = false →
      signumFloat fs (fs.sub a b) = ordToInt (cmp a b)
  ofInt_notNaN : ∀ z, fs.isNaN (fs.ofInt z) = false

/-- Mathematical three-way comparison. `none`: the two types are not comparable (error);
`some none`: unordered (a NaN is involved); `some (some o)`: ordered. -/
def specCmp (fs : FloatSem) (cmpF : fs.F → fs.F → Ordering) :
    NumV fs.F → NumV fs.F → Option (Option Ordering)
  | .int a, .int b => some (some (cmpZ a.toInt b.toInt))
  | .int a, .char b => some (some (cmpZ a.toInt b.toInt))
  | .char a, .int b => some (some (cmpZ a.toInt b.toInt))
  | .char a, .char b => some (some (cmpZ a.toInt b.toInt))
  | .uint a, .uint b => some (some (cmpZ a.toNat b.toNat))
  | .uint _, _ => none
  | _, .uint _ => none
  | .flt f, .flt e => some (if fs.isNaN f || fs.isNaN e then none else some (cmpF f e))
  | .flt f, .int b => some (if fs.isNaN f then none else some (cmpF f (fs.ofInt b.toInt)))
  | .flt f, .char b => some (if fs.isNaN f then none else some (cmpF f (fs.ofInt b.toInt)))
  | .int a, .flt e => some (if fs.isNaN e then none else some (cmpF (fs.ofInt a.toInt) e))
  | .char a, .flt e => some (if fs.isNaN e then none else some (cmpF (fs.ofInt a.toInt) e))

def specOp (op : CmpOp) : Option Ordering → Bool
  | none => op == .ne          -- NaN: unequal to and unordered against everything
  | some o =>
    match op with
    | .lt => o == .lt
    | .gt => o == .gt
    | .le => o != .gt
    | .ge => o != .lt
    | .eq => o == .eq
    | .ne => o != .eq

def specCompareFn (fs : FloatSem) (cmpF : fs.F → fs.F → Ordering) (op : CmpOp)
    (a b : NumV fs.F) : Res Bool :=
  match specCmp fs cmpF a b with
  | none => .err
  | some r => .ok (specOp op r)

/-! ### the answer depends on the two VALUES only

In the interpreter every operand is a reference to a value object (`*SexpInt`, `*SexpFloat`, …),
and one object can be both operands: a variable used twice, a value passed to two parameters,
an array element compared with itself. The property speaks about numbers, so identity must be
irrelevant: NaN is unequal to and unordered against everything, including the very object that
holds it. The spec at the level of references is therefore DEFINED through the values the two
references hold, and `compare_is_value_level` says what that means. -/

/-- Comparison of two operands given as references `i`, `j` into a store of value objects. -/
def specCompareRef (fs : FloatSem) (cmpF : fs.F → fs.F → Ordering) (op : CmpOp)
    (store : Nat → NumV fs.F) (i j : Nat) : Res Bool :=
  specCompareFn fs cmpF op (store i) (store j)

/-- **compare_is_value_level**: two operand pairs that hold the same values get the same answer,
whichever objects hold them — in particular whether or not the two operands are one object. -/
theorem compare_is_value_level (fs : FloatSem) (cmpF : fs.F → fs.F → Ordering) (op : CmpOp)
    (store store' : Nat → NumV fs.F) (i j i' j' : Nat)
    (hi : store i = store' i') (hj : store j = store' j') :
    specCompareRef fs cmpF op store i j = specCompareRef fs cmpF op store' i' j' := by
  unfold specCompareRef; rw [hi, hj]

/-- A NaN object compared with ITSELF is still unordered: every operator is false except `!=`. -/
theorem spec_nan_self_unordered (fs : FloatSem) (cmpF : fs.F → fs.F → Ordering) (op : CmpOp)
    (store : Nat → NumV fs.F) (i : Nat) (f : fs.F) (hs : store i = .flt f)
    (hn : fs.isNaN f = true) :
    specCompareRef fs cmpF op store i i = .ok (op == .ne) := by
  simp [specCompareRef, specCompareFn, specCmp, specOp, hs, hn]

/-- Integer arithmetic of the spec: compute in ℤ, reduce modulo 2^64. -/
def specIntArith (op : ArOp) (a b : Int) : Option Int :=
  match op with
  | .add => some (a + b)
  | .sub => some (a - b)
  | .mul => some (a * b)
  | .div => none

end ZygoVerif.Num
