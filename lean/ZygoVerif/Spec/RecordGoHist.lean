/-
Specification of C10 over HISTORIES on shared records, written from the property text:

  "Converting a record to its registered Go struct (explicitly, or implicitly when it is passed to
   a Go method) fills every field … with exactly the record's values … a registered Go struct
   handed back to the script by a Go method appears as a record of the same type with equal field
   values, so a record survives the trip through Go unchanged."

The record's values are the values it has WHEN the conversion happens. So, for a record `r` that
the script built, converted, updated with `hset`, passed to Go methods, in any order:

D1  every conversion of `r` — `(togo r)`, or `r` passed as an argument — yields exactly the Go
    value that `r` as it is NOW denotes (`SpecToGo.denTop` of the current record: the same function
    as for a record that was never converted before). Nothing of an earlier conversion, of an
    earlier value of a field, or of what a Go method did to a struct it was handed may show.
D2  a struct handed back by a method comes back as the record of what the method returned: for the
    identity method that is the current record (completed with zero values); for a method that
    mutates its argument first, the mutated struct.
D3  no conversion and no method call changes the script's record (`read`).
D4  the receiver of a method (`(_method r Self:)`) is the Go object ATTACHED to `r` (state named by
    the property's anchors: "Go value attached to a record after conversion"). A record that has no
    attached object is converted now (D1). If neither `r` nor any record it contains changed since
    the first object was made for `r` (or since the last explicit `(togo r)`), the receiver holds
    exactly `r`'s current values.

UNSPECIFIED by the text (answer `?`, any outcome is accepted):
U1  what a receiver shows after the script changed the record (or a record inside it) since the
    object was attached: the code keeps using the attached object as it is (a method call ON the
    object, not a conversion); an implementation that converts again would be as good.
U2  whether two conversions of one record yield the same Go object or two objects (object identity
    ACROSS conversions); inside one conversion a record referenced twice is one object (Spec/RecordGo).
Not produced by the generator, therefore not judged: `hdel`, two spellings of one key, cycles,
methods that mutate their RECEIVER.

This file shares with the model: the data types, the script-side store (`Store`, `expand`, `hset`
— what `hset` does to a record is not C10's subject) and `touch` (the harness's own method).
-/
import ZygoVerif.Spec.RecordGo
import ZygoVerif.Model.ToGoHist
namespace ZygoVerif.SpecToGoHist
open ZygoVerif.ToGo ZygoVerif.ToGoHist ZygoVerif.SpecToGo

def all2 {α : Type} (f : α → α → Bool) : List α → List α → Bool
  | [], [] => true
  | a :: as, b :: bs => f a b && all2 f as bs
  | _, _ => false

/-- structural equality of script values (record identity included) -/
def sxEq : Nat → Sx → Sx → Bool
  | 0, _, _ => false
  | _+1, .int a, .int b => a == b
  | _+1, .uint a, .uint b => a == b
  | _+1, .flt a, .flt b => a == b
  | _+1, .str a, .str b => a == b
  | _+1, .sym a, .sym b => a == b
  | _+1, .char a, .char b => a == b
  | _+1, .bool a, .bool b => a == b
  | _+1, .nil, .nil => true
  | _+1, .raw a, .raw b => a == b
  | _+1, .time a, .time b => a == b
  | _+1, .pair, .pair => true
  | n+1, .arr xs, .arr ys => all2 (sxEq n) xs ys
  | n+1, .hash i t k, .hash j u l =>
    i == j && t == u && all2 (fun a b => a.1 == b.1 && sxEq n a.2 b.2) k l
  | _+1, _, _ => false

structure SSt where
  store : Store
  att : List (Nat × Store)     -- record id ↦ the records as they were when a Go object was attached to it

def SSt.record (s : SSt) (r : Nat) : Sx := expand s.store expandFuel (.hash r "" [])

/-- has `r` (with everything it contains) the values it had when its object was attached? -/
def SSt.unchangedSince (s : SSt) (r : Nat) : Option Bool :=
  (s.att.find? (·.1 == r)).map (fun a => sxEq (2 * expandFuel) (expand a.2 expandFuel (.hash r "" [])) (s.record r))

/-- objects were made for the records `ids` now. Which of the objects ever made for a record stays
attached to it is the implementation's business (U2), so the spec remembers the OLDEST state of the
record for which an object may still be around: a record that has an entry keeps it. Only an
explicit `(togo r)` is known to leave `r` with an object of its present values (`force`). -/
def attach (att : List (Nat × Store)) (store : Store) (ids : List Nat) (force : Option Nat) : List (Nat × Store) :=
  ids.foldl (fun acc id =>
    if force == some id then (id, store) :: acc.filter (·.1 != id)
    else if acc.any (·.1 == id) then acc else (id, store) :: acc) att

inductive SAns
  | go (objs : List (Nat × GV)) (v : GV) (strict : Bool)     -- the Go value the record must have become
  | back (objs : List (Nat × GV)) (v : GV) (strict : Bool)   -- a Go value that must come back as its record
  | record (x : Sx)
  | ok
  | err
  | unspecified
  | noanswer      -- a record's printed text in a string field: outside the spec

def SAns.stops : SAns → Bool | .err => true | .noanswer => true | _ => false

def topId : Sx → Nat | .hash id _ _ => id | _ => 0

/-- D1: the conversion of the record as it is now -/
def convertNow (w : World) (fuel : Nat) (s : SSt) (r : Nat) (want : Bool) : Option Out :=
  let x := s.record r
  denTop w fuel (if want then wantOf w x else none) x

def step (w : World) (fuel : Nat) (s : SSt) : Step → SAns × SSt
  | .togo r =>
    match convertNow w fuel s r false with
    | none => (.err, s)
    | some out => if out.textual then (.noanswer, s) else
      (.go out.objs out.v out.strict, { s with att := attach s.att s.store (out.objs.map (·.1)) (some r) })
  | .hset r k v =>
    match hset s.store r k v with
    | some st => (.ok, { s with store := st })
    | none => (.err, s)
  | .echo r =>
    match convertNow w fuel s r true with
    | none => (.err, s)
    | some out => if out.textual then (.noanswer, s) else
      (.back out.objs out.v out.strict, { s with att := attach s.att s.store (out.objs.map (·.1)) none })
  | .touch r =>
    match convertNow w fuel s r true with
    | none => (.err, s)
    | some out => if out.textual then (.noanswer, s) else
      let objs := out.objs.map (fun e => if e.1 == r then (e.1, touch relocFuel e.2) else e)
      (.back objs out.v out.strict, { s with att := attach s.att s.store (out.objs.map (·.1)) none })
  | .read r => (.record (s.record r), s)
  | .self r =>
    match s.unchangedSince r with
    | some false => (.unspecified, s)
    | _ =>
      match convertNow w fuel s r false with
      | none => (.err, s)
      | some out => if out.textual then (.noanswer, s) else
        (.back out.objs out.v out.strict, { s with att := attach s.att s.store (out.objs.map (·.1)) none })

def run (w : World) (fuel : Nat) : SSt → List Step → List SAns
  | _, [] => []
  | s, st :: rest =>
    let (a, s1) := step w fuel s st
    if a.stops then [a] else a :: run w fuel s1 rest

end ZygoVerif.SpecToGoHist
