/-
Spec/Balanced.lean — the stack/scope typing of zygomys bytecode (C04; reused by C09).

Written from the property text ("no leftover operands, scopes, call frames … remain") and
from the calling convention of the VM, not from the generator: a compiled function is
*balanced* when, along every control-flow path, it pops only what it pushed itself (or was
handed as arguments), closes every scope it opened, and reaches `ret` with exactly one value
on top of what its caller had.

* `BInstr`  — one constructor per Go type implementing `Instruction` (zygo/vm.go), carrying
              exactly the fields the stack discipline depends on. `goType` names the Go type;
              `Generated/InstrSet.lean` (extractor) lists the types that exist today and
              `Props/C04.lean` proves by `decide` that every one of them is covered.
* `Eff`     — the stack effect class of an instruction (`eff`).
* `AState`  — abstract state at a pc: `k` scopes opened since function entry, `base` operands
              in the function's own area, and a stack of open *frames* — one per `marker`
              pushed by a syntax-quote template and one per stack-mark of a loop / package —
              each with a count of operands above its delimiter (`Cnt`).
* `astep`   — transfer function. `le` — the approximation order. `infer` — a work-list
              fixpoint that proposes an annotation (state per pc). `verify` — the checker
              proper: a *local* check of an annotation. `check = verify ∘ infer`.

Soundness (`Props/C04.lean`, `checker_sound`) is proved for `verify` with an arbitrary
annotation, hence for `check`. Core-only (the driver links this file).
-/
namespace ZygoVerif.Bal

/-! ## Instructions -/

inductive BInstr where
  | jump (off : Int)                     -- JumpInstr{addpc}
  | goto (loc : Int)                     -- GotoInstr{location}
  | branch (dir : Bool) (off : Int)      -- BranchInstr{direction, location}
  | push                                 -- PushInstr (any expression but the marker)
  | pushMarker                           -- PushInstr{SexpMarker}
  | pushLazy                             -- PushLazyArgInstr
  | pop                                  -- PopInstr
  | dup                                  -- DupInstr
  | envToStack                           -- EnvToStackInstr
  | popStackPutEnv                       -- PopStackPutEnvInstr
  | update                               -- UpdateInstr
  | call (n : Nat)                       -- CallInstr{sym, nargs}
  | callExpr (n : Nat)                   -- CallExprInstr{callee, args}: operands are evaluated by nested runs
  | dispatch (n : Nat)                   -- DispatchInstr{nargs}
  | ret (isErr : Bool)                   -- ReturnInstr{err}
  | addScope                             -- AddScopeInstr
  | addFuncScope                         -- AddFuncScopeInstr
  | removeScope                          -- RemoveScopeInstr
  | explode                              -- ExplodeInstr
  | squash                               -- SquashInstr
  | bindlist (n : Nat)                   -- BindlistInstr{syms}
  | vectorize                            -- VectorizeInstr
  | hashize (n : Nat)                    -- HashizeInstr{HashLen}
  | label                                -- LabelInstr
  | brk (loop : Nat) (off : Int) (pops : Nat)   -- *BreakInstr{loop, scopesToPop}, loop.breakOffset
  | cont (loop : Nat) (off : Int) (pops : Nat)  -- *ContinueInstr{loop, scopesToPop}, loop.continueOffset
  | loopStart (loop : Nat)               -- LoopStartInstr{loop}
  | pushMark (s : Nat)                   -- PushStackmarkInstr{sym}
  | popUntilMark (s : Nat)               -- PopUntilStackmarkInstr{sym}
  | clearMark (s : Nat)                  -- ClearStackmarkInstr{sym}
  | debug                                -- DebugInstr
  | createClosure                        -- CreateClosureInstr
  | assign                               -- AssignInstr
  | popScopeXfer                         -- PopScopeTransferToDataStackInstr
  | prepareCall (n : Nat)                -- PrepareCallInstr{sym, nargs}
  | tailGuard (off : Int)                -- TailGuardInstr{sym, skip} (fix C09-02)
deriving DecidableEq, Repr, Inhabited

/-- The Go type an instruction stands for. -/
def BInstr.goType : BInstr → String
  | .jump _ => "JumpInstr" | .goto _ => "GotoInstr" | .branch _ _ => "BranchInstr"
  | .push => "PushInstr" | .pushMarker => "PushInstr" | .pushLazy => "PushLazyArgInstr"
  | .pop => "PopInstr" | .dup => "DupInstr" | .envToStack => "EnvToStackInstr"
  | .popStackPutEnv => "PopStackPutEnvInstr" | .update => "UpdateInstr"
  | .call _ => "CallInstr" | .callExpr _ => "CallExprInstr" | .dispatch _ => "DispatchInstr"
  | .ret _ => "ReturnInstr" | .addScope => "AddScopeInstr" | .addFuncScope => "AddFuncScopeInstr"
  | .removeScope => "RemoveScopeInstr" | .explode => "ExplodeInstr" | .squash => "SquashInstr"
  | .bindlist _ => "BindlistInstr" | .vectorize => "VectorizeInstr" | .hashize _ => "HashizeInstr"
  | .label => "LabelInstr" | .brk _ _ _ => "BreakInstr" | .cont _ _ _ => "ContinueInstr"
  | .loopStart _ => "LoopStartInstr" | .pushMark _ => "PushStackmarkInstr"
  | .popUntilMark _ => "PopUntilStackmarkInstr" | .clearMark _ => "ClearStackmarkInstr"
  | .debug => "DebugInstr" | .createClosure => "CreateClosureInstr" | .assign => "AssignInstr"
  | .popScopeXfer => "PopScopeTransferToDataStackInstr" | .prepareCall _ => "PrepareCallInstr"
  | .tailGuard _ => "TailGuardInstr"

/-- One representative per constructor (the checker's enumeration of the instruction set). -/
def allKinds : List BInstr :=
  [.jump 0, .goto 0, .branch true 0, .push, .pushMarker, .pushLazy, .pop, .dup, .envToStack,
   .popStackPutEnv, .update, .call 0, .callExpr 0, .dispatch 0, .ret false, .addScope,
   .addFuncScope, .removeScope, .explode, .squash, .bindlist 0, .vectorize, .hashize 0, .label,
   .brk 0 0 0, .cont 0 0 0, .loopStart 0, .pushMark 0, .popUntilMark 0, .clearMark 0, .debug,
   .createClosure, .assign, .popScopeXfer, .prepareCall 0, .tailGuard 0]

def coveredGoTypes : List String := allKinds.map BInstr.goType

/-! ## Effect classes -/

/-- What an instruction does to the data stack, the scope stack and the pc. -/
inductive Eff where
  | simple (pops pushes : Nat)   -- pop `pops` operands, push `pushes` values, pc+1
  | dup                          -- push a copy of the top operand
  | pop                          -- PopInstr: drop the top operand (an empty stack is left alone)
  | jump (off : Int)
  | goto (loc : Int)
  | branch (off : Int)           -- pop one operand; pc+1 or pc+off
  | ret | retErr
  | scopeUp | scopeDown
  | pushMarker | closeMarker | explode
  | pushMark (s : Nat) | popUntil (s : Nat) | clearMark (s : Nat)
  | exitLoop (loop : Nat) (off : Int) (pops : Nat)
  | xfer                         -- pop one scope, push it as a value
  | prepareCall (n : Nat)
  | guard (off : Int)            -- TailGuardInstr: nothing popped or pushed; pc+1 or pc+off
deriving DecidableEq, Repr

/-- The effect of each instruction, read off its `Execute` method (zygo/vm.go) and, for the
three call instructions, off the calling contract of `CallFunction` / `CallUserFunction`
(environment.go): the arguments are popped, exactly one result is pushed, scopes are left
alone. `callExpr` evaluates its operands by nested runs that return them one by one, so in
the function that contains it it is a plain "push one". -/
def eff : BInstr → Eff
  | .jump off => .jump off
  | .goto loc => .goto loc
  | .branch _ off => .branch off
  | .push => .simple 0 1
  | .pushMarker => .pushMarker
  | .pushLazy => .simple 0 1
  | .pop => .pop
  | .dup => .dup
  | .envToStack => .simple 0 1
  | .popStackPutEnv => .simple 1 0
  | .update => .simple 1 0
  | .call n => .simple n 1
  | .callExpr _ => .simple 0 1
  | .dispatch n => .simple (n + 1) 1
  | .ret false => .ret
  | .ret true => .retErr
  | .addScope => .scopeUp
  | .addFuncScope => .scopeUp
  | .removeScope => .scopeDown
  | .explode => .explode
  | .squash => .closeMarker
  | .bindlist _ => .simple 1 0
  | .vectorize => .closeMarker
  | .hashize _ => .closeMarker
  | .label => .simple 0 0
  | .brk l off p => .exitLoop l off p
  | .cont l off p => .exitLoop l off p
  | .loopStart _ => .simple 0 0
  | .pushMark s => .pushMark s
  | .popUntilMark s => .popUntil s
  | .clearMark s => .clearMark s
  | .debug => .simple 0 0
  | .createClosure => .simple 0 1
  | .assign => .simple 2 1       -- pops target and value, leaves the assigned value (after fix C04-03)
  | .popScopeXfer => .xfer
  | .prepareCall n => .prepareCall n
  | .tailGuard off => .guard off

/-! ## Functions -/

inductive FnKind where
  | top     -- code appended to `mainfunc` by one `LoadExpressions`
  | fn      -- `buildSexpFun` / `FuncBuilder` body: entered with the arguments on the stack
  | thunk   -- helper of `EvalCallExpression` / `Force` / `EvalFunction`: entered with nothing
deriving DecidableEq, Repr, Inhabited

structure Fn where
  kind : FnKind := .fn
  nformals : Nat := 0      -- len(argSyms): operands the prologue binds
  varargs : Bool := false
  nfixed : Nat := 0        -- SexpFunction.nargs
  code : List BInstr := []
deriving Repr, Inhabited

def Fn.entryCount (f : Fn) : Nat :=
  match f.kind with
  | .fn => f.nformals
  | _ => 0

/-- Position of the `LoopStartInstr` of a loop (`Zlisp.FindLoop`: first match). -/
def loopPos (code : List BInstr) (l : Nat) : Option Nat :=
  code.findIdx? (fun i => i == BInstr.loopStart l)

/-! ## Abstract domain -/

inductive Shape where
  | exact   -- exactly `n` operands, all ordinary values
  | vals    -- at least `n` operands, all ordinary values (after `explode`)
  | junk    -- `n` ordinary values on top of anything that is not an open stack-mark (landing point of break/continue)
deriving DecidableEq, Repr, Inhabited

structure Cnt where
  shape : Shape
  n : Nat
deriving DecidableEq, Repr, Inhabited

inductive FK where
  | marker
  | mark (s : Nat)
deriving DecidableEq, Repr, Inhabited

structure Frame where
  kind : FK
  cnt : Cnt
deriving DecidableEq, Repr, Inhabited

structure AState where
  k : Nat                 -- scopes opened since function entry
  frames : List Frame     -- open marker / stack-mark regions, innermost first
  base : Nat              -- operands in the function's own area below all frames
deriving DecidableEq, Repr, Inhabited

def openMarks : List Frame → List Nat
  | [] => []
  | ⟨.mark s, _⟩ :: r => s :: openMarks r
  | ⟨.marker, _⟩ :: r => openMarks r

def Shape.le : Shape → Shape → Bool
  | .exact, _ => true
  | .vals, .exact => false
  | .vals, _ => true
  | .junk, .junk => true
  | .junk, _ => false

/-- `a ≤ b`: `b` describes every stack `a` describes. -/
def Cnt.le (a b : Cnt) : Bool :=
  a.shape.le b.shape && (if b.shape = .exact then a.n == b.n else decide (b.n ≤ a.n))

def Frame.le (a b : Frame) : Bool := a.kind == b.kind && a.cnt.le b.cnt

def framesLe : List Frame → List Frame → Bool
  | [], [] => true
  | a :: as, b :: bs => a.le b && framesLe as bs
  | _, _ => false

def AState.le (a b : AState) : Bool :=
  a.k == b.k && a.base == b.base && framesLe a.frames b.frames

/-- Stack-marks open at the same time are pairwise different (checked on every annotation). -/
def AState.wf (a : AState) : Bool := (openMarks a.frames).Nodup

/-! ## Transfer function -/

/-- Pop `p` operands of the innermost region and push `m` values. -/
def popPush (a : AState) (p m : Nat) : Option AState :=
  match a.frames with
  | [] => if p ≤ a.base then some { a with base := a.base - p + m } else none
  | fr :: rest =>
    if p ≤ fr.cnt.n then some { a with frames := { fr with cnt := { fr.cnt with n := fr.cnt.n - p + m } } :: rest }
    else none

/-- Split the frames at the innermost open stack-mark `s`: frames above it, its own frame, the rest. -/
def cutTo (s : Nat) : List Frame → Option (List Frame × Frame × List Frame)
  | [] => none
  | fr :: rest =>
    if fr.kind = .mark s then some ([], fr, rest)
    else match cutTo s rest with
      | none => none
      | some (pre, f, r) => some (fr :: pre, f, r)

def target (pc : Nat) (off : Int) (len : Nat) : Option Nat :=
  let t : Int := (pc : Int) + off
  if 0 ≤ t ∧ t ≤ (len : Int) then some t.toNat else none

def absTarget (loc : Int) (len : Nat) : Option Nat :=
  if 0 ≤ loc ∧ loc ≤ (len : Int) then some loc.toNat else none

/-- Successor states of the instruction at `pc`, or why it is refused. -/
def astep (f : Fn) (pc : Nat) (i : BInstr) (a : AState) : Except String (List (Nat × AState)) :=
  let len := f.code.length
  match eff i with
  | .simple p m =>
    match popPush a p m with
    | some a' => .ok [(pc + 1, a')]
    | none => .error s!"needs {p} operand(s) of its own region"
  | .dup =>
    match popPush a 1 2 with
    | some a' => .ok [(pc + 1, a')]
    | none => .error "dup on an empty region"
  | .pop =>
    match popPush a 1 0 with
    | some a' => .ok [(pc + 1, a')]
    | none =>
      -- the GeneratePackage idiom: a `pop` on an empty stack-mark region removes the mark
      match a.frames with
      | ⟨.mark _, ⟨.exact, 0⟩⟩ :: rest => .ok [(pc + 1, { a with frames := rest })]
      | _ => .error "pop on an empty region"
  | .jump off =>
    match target pc off len with
    | some t => .ok [(t, a)]
    | none => .error "jump out of bounds"
  | .goto loc =>
    match absTarget loc len with
    | some t => .ok [(t, a)]
    | none => .error "goto out of bounds"
  | .branch off =>
    match popPush a 1 0, target pc off len with
    | some a', some t => .ok [(pc + 1, a'), (t, a')]
    | none, _ => .error "branch on an empty region"
    | _, none => .error "branch out of bounds"
  | .ret =>
    if a.k = 0 ∧ a.frames = [] ∧ a.base = 1 then .ok []
    else .error s!"ret with {a.base} operand(s), {a.frames.length} open region(s), {a.k} open scope(s)"
  | .retErr => .ok []
  | .scopeUp => .ok [(pc + 1, { a with k := a.k + 1 })]
  | .scopeDown =>
    if 1 ≤ a.k then .ok [(pc + 1, { a with k := a.k - 1 })] else .error "removes a scope it did not open"
  | .pushMarker => .ok [(pc + 1, { a with frames := ⟨.marker, ⟨.exact, 0⟩⟩ :: a.frames })]
  | .closeMarker =>
    match a.frames with
    | ⟨.marker, c⟩ :: rest =>
      if c.shape = .junk then .error "squash over an unknown region"
      else match popPush { a with frames := rest } 0 1 with
        | some a' => .ok [(pc + 1, a')]
        | none => .error "squash"
    | _ => .error "squash/vectorize/hashize without an open marker"
  | .explode =>
    match a.frames with
    | ⟨.marker, c⟩ :: rest =>
      if c.shape = .junk then .error "explode over an unknown region"
      else if 1 ≤ c.n then .ok [(pc + 1, { a with frames := ⟨.marker, ⟨.vals, c.n - 1⟩⟩ :: rest })]
      else .error "explode on an empty region"
    | _ => .error "explode outside a marker region"
  | .pushMark s =>
    if s ∈ openMarks a.frames then .error s!"stack-mark {s} pushed twice"
    else .ok [(pc + 1, { a with frames := ⟨.mark s, ⟨.exact, 0⟩⟩ :: a.frames })]
  | .popUntil s =>
    match cutTo s a.frames with
    | some (_, fr, rest) => .ok [(pc + 1, { a with frames := { fr with cnt := ⟨.exact, 0⟩ } :: rest })]
    | none => .error s!"stack-mark {s} is not open"
  | .clearMark s =>
    match cutTo s a.frames with
    | some (_, _, rest) => .ok [(pc + 1, { a with frames := rest })]
    | none => .error s!"stack-mark {s} is not open"
  | .exitLoop l off p =>
    match loopPos f.code l with
    | none =>
      -- the loop belongs to another function (a `break` compiled inside a `fn` that sits in a
      -- loop): `FindLoop` fails, the instruction is a run-time error and has no successor
      .ok []
    | some pos =>
      match cutTo l a.frames with
      | some (_, fr, rest) =>
        if p ≤ a.k then
          match target pos off len with
          | some t => .ok [(t, { a with k := a.k - p, frames := { fr with cnt := ⟨.junk, 0⟩ } :: rest })]
          | none => .error "break/continue out of bounds"
        else .error "break/continue pops more scopes than are open"
      | none => .error s!"break/continue: loop {l} is not open"
  | .xfer =>
    if 1 ≤ a.k then
      match popPush { a with k := a.k - 1 } 0 1 with
      | some a' => .ok [(pc + 1, a')]
      | none => .error "xfer"
    else .error "package end without an open scope"
  | .prepareCall n =>
    if f.varargs then
      if f.nfixed ≤ n then
        match popPush a (n - f.nfixed) 1 with
        | some a' => .ok [(pc + 1, a')]
        | none => .error "tail call: operands missing"
      else .error "tail call with too few arguments"
    else .ok [(pc + 1, a)]
  | .guard off =>
    match target pc off len with
    | some t => .ok [(pc + 1, a), (t, a)]
    | none => .error "tail guard out of bounds"

/-! ## The checker proper: local verification of an annotation -/

abbrev Ann := List (Option AState)

def Fn.entry (f : Fn) : AState := { k := 0, frames := [], base := f.entryCount }

def annAt (ann : Ann) (pc : Nat) : Option AState := (ann[pc]?).join

def succOk (ann : Ann) (p : Nat × AState) : Bool :=
  match annAt ann p.1 with
  | some t => p.2.le t
  | none => false

/-- The instruction at `pc` maps the annotated state into the annotated states of its successors. -/
def okAt (f : Fn) (ann : Ann) (pc : Nat) : Bool :=
  match annAt ann pc, f.code[pc]? with
  | some a, some i =>
    a.wf && (match astep f pc i a with
      | .ok succs => succs.all (succOk ann)
      | .error _ => false)
  | _, _ => true

/-- What may be reached at the end of the code (pc = len). A closure body or helper never
falls off its end. A top-level text ends with exactly one value, no open scope, no open
region — or is empty (then `Run` itself supplies nil). -/
def endOk (f : Fn) (ann : Ann) : Bool :=
  match annAt ann f.code.length with
  | none => true
  | some a =>
    match f.kind with
    | .top => a.k == 0 && a.frames.isEmpty && (a.base == 1 || (f.code.isEmpty && a.base == 0))
    | _ => false

def verify (f : Fn) (ann : Ann) : Bool :=
  ann.length == f.code.length + 1
  && succOk ann (0, f.entry)
  && (List.range f.code.length).all (okAt f ann)
  && endOk f ann

/-! ## Inference (proposes the annotation; not trusted) -/

def joinCnt (a b : Cnt) : Cnt :=
  if a = b then a else
  let sh := if a.shape.le b.shape then b.shape else a.shape
  -- two different exact counts: only "at least the smaller" is known
  let sh := if sh = .exact then .vals else sh
  ⟨sh, min a.n b.n⟩

def joinFrames : List Frame → List Frame → Option (List Frame)
  | [], [] => some []
  | a :: as, b :: bs =>
    if a.kind = b.kind then (joinFrames as bs).map (fun r => ⟨a.kind, joinCnt a.cnt b.cnt⟩ :: r) else none
  | _, _ => none

def joinState (a b : AState) : Option AState :=
  if a.k = b.k ∧ a.base = b.base then (joinFrames a.frames b.frames).map (fun fr => { a with frames := fr })
  else none

def showState (a : AState) : String :=
  let fr := a.frames.map (fun f =>
    (match f.kind with | .marker => "marker" | .mark s => s!"mark{s}") ++
    (match f.cnt.shape with | .exact => "=" | .vals => ">=" | .junk => "~") ++ toString f.cnt.n)
  s!"[scopes {a.k}; base {a.base}; {fr}]"

/-- Merge `s` into the annotation at `pc`; returns the new annotation and whether it changed. -/
def merge (ann : Ann) (pc : Nat) (s : AState) : Except String (Ann × Bool) :=
  match annAt ann pc with
  | none => .ok (ann.set pc (some s), true)
  | some t =>
    match joinState t s with
    | none => .error s!"pc {pc}: paths disagree: {showState t} vs {showState s}"
    | some j => if j = t then .ok (ann, false) else .ok (ann.set pc (some j), true)

def mergeAll (ann : Ann) (work : List Nat) : List (Nat × AState) → Except String (Ann × List Nat)
  | [] => .ok (ann, work)
  | (pc, s) :: rest =>
    match merge ann pc s with
    | .error e => .error e
    | .ok (ann', changed) => mergeAll ann' (if changed then pc :: work else work) rest

def inferLoop (f : Fn) : Nat → List Nat → Ann → Except String Ann
  | 0, _, _ => .error "inference did not converge"
  | _, [], ann => .ok ann
  | fuel + 1, pc :: work, ann =>
    match annAt ann pc, f.code[pc]? with
    | some a, some i =>
      match astep f pc i a with
      | .error e => .error s!"pc {pc}: {e} in state {showState a}"
      | .ok succs =>
        match mergeAll ann work succs with
        | .error e => .error e
        | .ok (ann', work') => inferLoop f fuel work' ann'
    | _, _ => inferLoop f fuel work ann

def infer (f : Fn) : Except String Ann :=
  let len := f.code.length
  let ann0 : Ann := (List.replicate (len + 1) none).set 0 (some f.entry)
  inferLoop f (64 * (len + 1) + 64) [0] ann0

/-- The checker: infer an annotation, then verify it. -/
def check (f : Fn) : Except String Unit :=
  match infer f with
  | .error e => .error e
  | .ok ann =>
    if verify f ann then .ok ()
    else
      -- name the first pc whose local condition fails
      match (List.range f.code.length).find? (fun pc => !okAt f ann pc) with
      | some pc => .error s!"pc {pc}: annotation does not verify"
      | none =>
        match annAt ann f.code.length with
        | some a => .error s!"falls off its end in state {showState a}"
        | none => .error "annotation does not verify"

def checkB (f : Fn) : Bool := match check f with | .ok _ => true | .error _ => false

end ZygoVerif.Bal
