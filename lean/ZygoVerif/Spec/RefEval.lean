/-
Reference semantics of the core language (property C02; reused by C03, C09, C16).

A direct big-step evaluator over the abstract syntax. Written from the property text and
the language documentation, not from the VM: there is no stack, no program counter, no
jump, no tail-call optimisation, no compile step.

* environments are chains of heap-allocated frames (`Frame.parent`); a closure stores the
  pointer to the frame it was created in; every activation, `let`, `letseq`, `newScope`
  and `for` allocates one fresh frame;
* `def` binds in the innermost frame, `set` updates the nearest binding and defines in the
  innermost frame when there is none; `defn` is `def` of a closure and yields nil;
* `let` evaluates all initialisers (inside the new frame, none of the new names visible
  yet) and then binds; `letseq` binds one after the other;
* `cond`, `and`, `or` evaluate only the arms they must and yield the last value evaluated;
  `(and)` is true, `(or)` is false;
* `for [init test step] body…`: `break` leaves the loop, `continue` goes to `step`; a label
  selects an enclosing loop; the value of a loop is nil;
* a call evaluates the callee first, then the arguments exactly once from left to right;
  a parameter whose name starts with `#` receives its argument unevaluated, as a memoised
  thunk (`force` evaluates it at most once, in the caller's environment);
  `& rest` collects the surplus arguments in a list; a non-function callee applied to no
  arguments is that value;
* `map`/`apply` call the function value on each element / on the spread arguments;
* calls of the host function `trace` are the observable effects; the trace is part of the
  result;
* termination by fuel.

What the builtins compute on values (`prim`, `truthy`, the re-binding type rule `rebindOk`)
is shared with the model (`Model/Prim.lean`).
-/
import ZygoVerif.Model.CoreSexp
import ZygoVerif.Model.Prim
import ZygoVerif.Model.LazySrc
namespace ZygoVerif.Ref
open ZygoVerif.Core

structure Frame where
  vars : List (String × Val) := []
  parent : Option Nat := none
deriving Repr, Inhabited

structure Clos where
  ps : List String
  rest : Option String
  body : List Expr
  env : Nat
deriving Repr, Inhabited

structure Thunk where
  e : Expr
  env : Nat
  value : Option Val
  isValue : Bool := false      -- made by `apply`/`map` from a value: its source is that value
deriving Repr, Inhabited

structure St where
  frames : List Frame
  heap : DataHeap := {}
  clos : List Clos := []
  thunks : List Thunk := []
  trace : List String := []
deriving Repr, Inhabited

/-- Control outcomes of evaluating something in a state. -/
inductive R (α : Type) where
  | ok (a : α) (s : St)
  | err (s : St)
  | brk (label : Option String) (s : St)
  | cont (label : Option String) (s : St)
  | timeout
deriving Repr, Inhabited

def globalNames : List String := coreBuiltins ++ ["trace"]

def initSt : St :=
  { frames := [{ vars := [("nil", .nil), ("null", .nil)] ++ globalNames.map (fun n => (n, Val.builtin n)) }] }

def assocSet (l : List (String × Val)) (x : String) (v : Val) : List (String × Val) :=
  if l.any (·.1 == x) then l.map (fun p => if p.1 == x then (x, v) else p) else (x, v) :: l

def newFrame (s : St) (parent : Nat) : Nat × St :=
  (s.frames.length, { s with frames := s.frames ++ [{ parent := some parent }] })

/-- Walk the static chain. `fuel` bounds the walk by the number of frames. -/
def lookupIn (frames : List Frame) : Nat → Nat → String → Option (Nat × Val)
  | 0, _, _ => none
  | fuel+1, env, x =>
    match frames[env]? with
    | none => none
    | some fr =>
      match fr.vars.lookup x with
      | some v => some (env, v)
      | none => match fr.parent with
        | some p => lookupIn frames fuel p x
        | none => none

def lookup (s : St) (env : Nat) (x : String) : Option (Nat × Val) :=
  lookupIn s.frames (s.frames.length + 1) env x

def setVar (s : St) (env : Nat) (x : String) (v : Val) : St :=
  match s.frames[env]? with
  | none => s
  | some fr => { s with frames := s.frames.set env { fr with vars := assocSet fr.vars x v } }

/-- `def`: bind in frame `env`; re-binding a name in the same frame must respect the
type-stability rule. -/
def define (s : St) (env : Nat) (x : String) (v : Val) : Option St :=
  match s.frames[env]? with
  | none => none
  | some fr =>
    match fr.vars.lookup x with
    | some cur => if rebindOk s.heap cur v then some (setVar s env x v) else none
    | none => some (setVar s env x v)

def isLazyParam (p : String) : Bool := p.startsWith "#"

/-- Bind formals to actuals in a fresh frame. `none` = arity error. -/
def bindParams (ps : List String) (rest : Option String) (args : List Val) : Option (List (String × Val)) :=
  match rest with
  | none => if args.length = ps.length then some (ps.zip args) else none
  | some r =>
    if args.length ≥ ps.length then
      some (ps.zip (args.take ps.length) ++ [(r, mkList (args.drop ps.length))])
    else none

mutual

def eval : Nat → Expr → Nat → St → R Val
  | 0, _, _, _ => .timeout
  | fuel+1, e, env, s =>
    match e with
    | .int v => .ok (intOfLit v) s
    | .bool b => .ok (.bool b) s
    | .str t => .ok (.str t) s
    | .nilLit => .ok .nil s
    | .sym x => match lookup s env x with
      | some (_, v) => .ok v s
      | none => .err s
    | .arr es => match evalList fuel es env s with
      | .ok vs s => let (a, h) := s.heap.alloc vs; .ok a { s with heap := h }
      | .err s => .err s | .brk l s => .brk l s | .cont l s => .cont l s | .timeout => .timeout
    | .begin_ es => evalBegin fuel es env s
    | .def_ x e => match eval fuel e env s with
      | .ok v s => (match define s env x v with | some s' => .ok v s' | none => .err s)
      | r => r
    | .set_ x e => match eval fuel e env s with
      | .ok v s => (match lookup s env x with
        | some (fr, _) => .ok v (setVar s fr x v)
        | none => .ok v (setVar s env x v))
      | r => r
    | .cond arms dflt => evalCond fuel arms dflt env s
    | .and_ es => evalAndOr fuel false es env s
    | .or_ es => evalAndOr fuel true es env s
    | .let_ seq bs body =>
      let (fr, s) := newFrame s env
      if seq then
        match evalLetSeq fuel bs fr s with
        | .ok _ s => evalBegin fuel body fr s
        | .err s => .err s | .brk l s => .brk l s | .cont l s => .cont l s | .timeout => .timeout
      else
        match evalList fuel (bs.map (·.2)) fr s with
        | .ok vs s =>
          (match bindAll s fr (bs.map (·.1)) vs with
           | some s => evalBegin fuel body fr s
           | none => .err s)
        | .err s => .err s | .brk l s => .brk l s | .cont l s => .cont l s | .timeout => .timeout
    | .newScope es => let (fr, s) := newFrame s env; evalBegin fuel es fr s
    | .for_ label init test step body =>
      let (fr, s) := newFrame s env
      match eval fuel init fr s with
      | .ok _ s => loop fuel label test step body fr s
      | .brk l s => if l.isNone ∨ l = label then .ok .nil s else .brk l s
      | r => r
    | .break_ l => .brk l s
    | .continue_ l => .cont l s
    | .fn ps rest body =>
      .ok (.fn s.clos.length) { s with clos := s.clos ++ [{ ps, rest, body, env }] }
    | .defn name ps rest body =>
      let s := { s with clos := s.clos ++ [{ ps, rest, body, env }] }
      (match define s env name (.fn (s.clos.length - 1)) with
       | some s' => .ok .nil s'
       | none => .err s)
    | .call f args =>
      match eval fuel f env s with
      | .ok fv s =>
        if (match fv with | .arr _ => true | _ => false) then
          -- an array in head position is a slice-type constructor, not part of the core
          -- language: its operands are evaluated, then the call fails
          (match evalList fuel args env s with
           | .ok _ s => .err s
           | .err s => .err s | .brk l s => .brk l s | .cont l s => .cont l s | .timeout => .timeout)
        else if !isFunction fv then (if args.isEmpty then .ok fv s else .err s)
        else
          let lazyAt : Nat → Bool := match fv with
            | .fn id => (match s.clos[id]? with
              | some c => fun i => i < c.ps.length && isLazyParam (c.ps.getD i "")
              | none => fun _ => false)
            | _ => fun _ => false
          (match evalArgs fuel args 0 lazyAt env s with
           | .ok vs s => applyFn fuel fv vs s
           | .err s => .err s | .brk l s => .brk l s | .cont l s => .cont l s | .timeout => .timeout)
      | r => r
    | .assign _ _ => .err s
    | .bad _ => .err s

/-- Left to right, each exactly once. -/
def evalList : Nat → List Expr → Nat → St → R (List Val)
  | 0, _, _, _ => .timeout
  | _, [], _, s => .ok [] s
  | fuel+1, e :: es, env, s =>
    match eval fuel e env s with
    | .ok v s => (match evalList fuel es env s with
      | .ok vs s => .ok (v :: vs) s
      | r => r)
    | .err s => .err s | .brk l s => .brk l s | .cont l s => .cont l s | .timeout => .timeout

/-- Call arguments: position `i` is delayed when the callee declares it lazy. -/
def evalArgs : Nat → List Expr → Nat → (Nat → Bool) → Nat → St → R (List Val)
  | 0, _, _, _, _, _ => .timeout
  | _, [], _, _, _, s => .ok [] s
  | fuel+1, e :: es, i, lazyAt, env, s =>
    if lazyAt i then
      let id := s.thunks.length
      let s := { s with thunks := s.thunks ++ [{ e, env, value := none }] }
      match evalArgs fuel es (i+1) lazyAt env s with
      | .ok vs s => .ok (.lazy id :: vs) s
      | r => r
    else
      match eval fuel e env s with
      | .ok v s => (match evalArgs fuel es (i+1) lazyAt env s with
        | .ok vs s => .ok (v :: vs) s
        | r => r)
      | .err s => .err s | .brk l s => .brk l s | .cont l s => .cont l s | .timeout => .timeout

def evalBegin : Nat → List Expr → Nat → St → R Val
  | 0, _, _, _ => .timeout
  | _, [], _, s => .ok .nil s
  | fuel+1, [e], env, s => eval fuel e env s
  | fuel+1, e :: es, env, s =>
    match eval fuel e env s with
    | .ok _ s => evalBegin fuel es env s
    | r => r

def evalCond : Nat → List (Expr × Expr) → Expr → Nat → St → R Val
  | 0, _, _, _, _ => .timeout
  | fuel+1, [], dflt, env, s => eval fuel dflt env s
  | fuel+1, (c, b) :: arms, dflt, env, s =>
    match eval fuel c env s with
    | .ok v s => if truthy v then eval fuel b env s else evalCond fuel arms dflt env s
    | r => r

/-- `isOr = false`: `and` (stop at the first falsy value); `true`: `or`. -/
def evalAndOr : Nat → Bool → List Expr → Nat → St → R Val
  | 0, _, _, _, _ => .timeout
  | _, isOr, [], _, s => .ok (.bool (!isOr)) s
  | fuel+1, _, [e], env, s => eval fuel e env s
  | fuel+1, isOr, e :: es, env, s =>
    match eval fuel e env s with
    | .ok v s => if truthy v == isOr then .ok v s else evalAndOr fuel isOr es env s
    | r => r

def evalLetSeq : Nat → List (String × Expr) → Nat → St → R Unit
  | 0, _, _, _ => .timeout
  | _, [], _, s => .ok () s
  | fuel+1, (x, e) :: bs, fr, s =>
    match eval fuel e fr s with
    | .ok v s => (match define s fr x v with
      | some s => evalLetSeq fuel bs fr s
      | none => .err s)
    | .err s => .err s | .brk l s => .brk l s | .cont l s => .cont l s | .timeout => .timeout

def bindAll (s : St) (fr : Nat) : List String → List Val → Option St
  | x :: xs, v :: vs => match define s fr x v with
    | some s => bindAll s fr xs vs
    | none => none
  | _, _ => some s

/-- One `for` loop after its initialiser: test, body, step, repeat. -/
def loop : Nat → Option String → Expr → Expr → List Expr → Nat → St → R Val
  | 0, _, _, _, _, _, _ => .timeout
  | fuel+1, label, test, step, body, fr, s =>
    let mine (l : Option String) : Bool := l.isNone || l == label
    match eval fuel test fr s with
    | .ok t s =>
      if !truthy t then .ok .nil s
      else
        let afterBody (s : St) : R Val :=
          match eval fuel step fr s with
          | .ok _ s => loop fuel label test step body fr s
          | .brk l s => if mine l then .ok .nil s else .brk l s
          | .cont l s => if mine l then loop fuel label test step body fr s else .cont l s
          | r => r
        (match evalBegin fuel body fr s with
         | .ok _ s => afterBody s
         | .brk l s => if mine l then .ok .nil s else .brk l s
         | .cont l s => if mine l then afterBody s else .cont l s
         | r => r)
    | .brk l s => if mine l then .ok .nil s else .brk l s
    | r => r

/-- Apply a function value to evaluated arguments (lazy positions already hold thunks). -/
def applyFn : Nat → Val → List Val → St → R Val
  | 0, _, _, _ => .timeout
  | fuel+1, fv, args, s =>
    match fv with
    | .fn id =>
      (match s.clos[id]? with
       | none => .err s
       | some c =>
         match bindParams c.ps c.rest args with
         | none => .err s
         | some binds =>
           let (fr, s) := newFrame s c.env
           let s := binds.foldl (fun s (p : String × Val) => setVar s fr p.1 p.2) s
           match evalBegin fuel c.body fr s with
           | .ok v s => .ok v s
           | .brk _ s => .err s      -- a break/continue may not leave a function
           | .cont _ s => .err s
           | r => r)
    | .builtin name =>
      if name = "trace" then
        let v := args.headD .nil
        .ok v { s with trace := s.trace ++ [pr s.heap v] }
      else if name = "probe" then
        -- host function of channel `tail` (C09); the reference has no stacks: only the site is recorded
        .ok .nil { s with trace := s.trace ++ ["P" ++ pr s.heap (args.headD .nil)] }
      else if name = "force" then
        (match args with
         | [.lazy id] => force fuel id s
         | [v] => .ok v s
         | _ => .err s)
      else if name = "substitute" then
        -- the source expression of a thunk, as data, without evaluating it
        (match args with
         | [.lazy id] => (match s.thunks[id]? with
           | none => .err s
           | some th =>
             if th.isValue then .ok (th.value.getD .nil) s
             else let (v, h) := quoteE th.e s.heap; .ok v { s with heap := h })
         | [v] => .ok v s
         | _ => .err s)
      else if name = "apply" then
        (match args with
         | [f, coll] =>
           if !isFunction f then .err s else
           (match coll with
            | .arr r => applyValues fuel f (s.heap.get r) s
            | .pair a b => (match listToArray (.pair a b) with
              | some xs => applyValues fuel f xs s
              | none => .err s)
            | _ => .err s)
         | _ => .err s)
      else if name = "map" then
        (match args with
         | [f, coll] =>
           if !isFunction f then .err s else
           (match coll with
            | .arr r => (match mapArr fuel f r 0 (s.heap.get r).length s with
              | .ok vs s => let (a, h) := s.heap.alloc vs; .ok a { s with heap := h }
              | .err s => .err s | .brk l s => .brk l s | .cont l s => .cont l s | .timeout => .timeout)
            | .pair a b => mapList fuel f (.pair a b) s
            | _ => .err s)
         | _ => .err s)
      else
        (match prim name args s.heap with
         | some (v, h) => .ok v { s with heap := h }
         | none => .err s)
    | _ => .err s

/-- `apply`/`map` hand over *values*: a lazy position receives an already forced thunk. -/
def applyValues : Nat → Val → List Val → St → R Val
  | 0, _, _, _ => .timeout
  | fuel+1, f, xs, s =>
    match f with
    | .fn id =>
      (match s.clos[id]? with
       | none => .err s
       | some c =>
         let wrap : St × List Val × Nat → Val → St × List Val × Nat := fun (s, acc, i) v =>
           if i < c.ps.length && isLazyParam (c.ps.getD i "") then
             ({ s with thunks := s.thunks ++ [{ e := .nilLit, env := 0, value := some v, isValue := true }] },
              acc ++ [.lazy s.thunks.length], i + 1)
           else (s, acc ++ [v], i + 1)
         let (s, xs, _) := xs.foldl wrap (s, [], 0)
         applyFn fuel f xs s)
    | _ => applyFn fuel f xs s

def mapArr : Nat → Val → Nat → Nat → Nat → St → R (List Val)
  | 0, _, _, _, _, _ => .timeout
  | fuel+1, f, r, i, n, s =>
    if i ≥ n then .ok [] s else
    match applyValues fuel f [(s.heap.get r).getD i .nil] s with
    | .ok v s => (match mapArr fuel f r (i+1) n s with
      | .ok vs s => .ok (v :: vs) s
      | r => r)
    | .err s => .err s | .brk l s => .brk l s | .cont l s => .cont l s | .timeout => .timeout

def mapList : Nat → Val → Val → St → R Val
  | 0, _, _, _ => .timeout
  | fuel+1, f, l, s =>
    match l with
    | .nil => .ok .nil s
    | .pair a b =>
      (match applyValues fuel f [a] s with
       | .ok v s => (match mapList fuel f b s with
         | .ok t s => .ok (.pair v t) s
         | r => r)
       | r => r)
    | _ => .err s

def force : Nat → Nat → St → R Val
  | 0, _, _ => .timeout
  | fuel+1, id, s =>
    match s.thunks[id]? with
    | none => .err s
    | some th =>
      match th.value with
      | some v => .ok v s
      | none =>
        match eval fuel th.e th.env s with
        | .ok v s => .ok v { s with thunks := s.thunks.set id { th with value := some v } }
        | .brk _ s => .err s
        | .cont _ s => .err s
        | r => r

end

/-- What a run of one program text shows to the host. -/
inductive Outcome where
  | ok (value : String) (trace : List String)
  | err (trace : List String)
  | timeout
deriving Repr, DecidableEq, Inhabited

/-- Evaluate a whole program (its top-level forms in order) in the global frame; the trace
reported is the part produced by this program. -/
def runProgram (fuel : Nat) (es : List Expr) (s : St) : Outcome × St :=
  let s0 := { s with trace := [] }
  match evalBegin fuel es 0 s0 with
  | .ok v s' => (.ok (pr s'.heap v) s'.trace, s')
  | .err s' => (.err s'.trace, s')
  | .brk _ s' => (.err s'.trace, s')
  | .cont _ s' => (.err s'.trace, s')
  | .timeout => (.timeout, s)

/-! ## The property's domain: statically well-formed programs -/

/-- Static context of `wf`: labels of the enclosing loops of the current function body
(innermost first), and whether we are inside an operand of a call (or of an array literal
in operand position). `strict`: `break`/`continue` are not accepted inside call operands
(the implementation compiles operands at run time, without the loop context: known finding
C02-K1; the strict domain is what the random generators draw from). -/
structure WfCtx where
  loops : List (Option String) := []
  inArg : Bool := false
  strict : Bool := true

mutual
/-- No rejected form; every `break`/`continue` has a matching enclosing loop in the same
function body; a parallel `let` binds pairwise distinct names. -/
def wf : WfCtx → Expr → Bool
  | _, .int _ | _, .bool _ | _, .str _ | _, .nilLit | _, .sym _ => true
  | c, .arr es => wfList c es
  | c, .call f args => wf { c with inArg := true } f && wfList { c with inArg := true } args
  | c, .begin_ es => wfList c es
  | c, .def_ _ e => wf c e
  | c, .set_ _ e => wf c e
  | c, .cond arms d => wfArms c arms && wf c d
  | c, .and_ es => wfList c es
  | c, .or_ es => wfList c es
  | c, .let_ seq bs body =>
    -- a parallel `let` binds pairwise distinct names (a repeated name is outside the domain: the
    -- implementation binds the last name first, a reference reading has no canonical order)
    (seq || decide ((bs.map (·.1)).Nodup)) && wfBinds c bs && wfList c body
  | c, .newScope es => wfList c es
  | c, .for_ l i t s body =>
    let c' := { c with loops := l :: c.loops }
    wf c' i && wf c' t && wf c' s && wfList c' body
  | c, .break_ l => !(c.strict && c.inArg) && (match l with | none => !c.loops.isEmpty | some x => c.loops.contains (some x))
  | c, .continue_ l => !(c.strict && c.inArg) && (match l with | none => !c.loops.isEmpty | some x => c.loops.contains (some x))
  | c, .fn _ _ body => wfList { c with loops := [], inArg := false } body
  | c, .defn _ _ _ body => wfList { c with loops := [], inArg := false } body
  | _, .assign _ _ => false
  | _, .bad _ => false
def wfList : WfCtx → List Expr → Bool
  | _, [] => true
  | c, e :: es => wf c e && wfList c es
def wfArms : WfCtx → List (Expr × Expr) → Bool
  | _, [] => true
  | c, (p, b) :: r => wf c p && wf c b && wfArms c r
def wfBinds : WfCtx → List (String × Expr) → Bool
  | _, [] => true
  | c, (_, e) :: r => wf c e && wfBinds c r
end

end ZygoVerif.Ref
