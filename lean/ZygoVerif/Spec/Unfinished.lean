/-
Specification side of C13, written from the property text:

* the expressions of a text are those obtained by delivering it whole, with the end of
  input signalled, to a fresh parser (`wholeParse`);
* after a prefix the parser must ask for more input exactly when the prefix is unfinished:
  a bracket, a string or rune literal, a raw string or a block comment is open, or a
  quote-like prefix operator (% ^ ~ ~@) still lacks its operand (`Unfinished`).

`Unfinished` is a one-pass bracket counter over the tokens the lexer has emitted for the
prefix plus the lexer's literal mode; it knows nothing about the parser.
-/
import ZygoVerif.Model.Parser
namespace ZygoVerif.Spec
open ZygoVerif.Lexer

structure Nest where
  depth : Nat := 0
  inBlock : Bool := false
  inRaw : Bool := false
  pend : Bool := false        -- a top-level prefix operator waits for its operand
  deriving DecidableEq, Repr

def Nest.tok (n : Nest) (t : Token) : Nest :=
  let done (n : Nest) : Nest := if n.depth == 0 then { n with pend := false } else n
  match t.typ with
  | .beginBlockComment => { n with inBlock := true }
  | .endBlockComment => done { n with inBlock := false }
  | .beginBacktickString => { n with inRaw := true }
  | .backtickString => done { n with inRaw := false }
  | .lparen | .lsquare | .lcurly => { n with depth := n.depth + 1 }
  | .rparen | .rsquare | .rcurly => done { n with depth := n.depth - 1 }
  | .quote | .caret | .tilde | .tildeAt => if n.depth == 0 then { n with pend := true } else n
  | .comment => if n.inBlock then n else done n
  | _ => done n

def unfinishedCore (c : LexCore) (emitted : List Token) : Bool :=
  let n := emitted.foldl Nest.tok {}
  n.depth > 0 || n.inBlock || n.inRaw || n.pend || inLiteral c

/-- `Unfinished t`: the text `t` (no end-of-input mark) is an unfinished prefix. `none`
when the lexer refuses `t` (then the text is simply wrong). -/
def Unfinished (t : List Char) : Option Bool :=
  match feed (.ok LexCore.init) t with
  | .ok c => some (unfinishedCore c c.tokens)
  | .err _ _ => none

end ZygoVerif.Spec
