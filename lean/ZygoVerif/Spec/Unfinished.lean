/-
Specification side of C13, written from the property text:

* the expressions of a text are those obtained by delivering it whole, with the end of
  input signalled, to a fresh parser (`wholeParse`);
* after a prefix the parser must ask for more input exactly when the prefix is unfinished:
  a bracket, a string or rune literal, a raw string or a block comment is open, or a
  quote-like prefix operator (% ^ ~ ~@) still lacks its operand (`Unfinished`);
* while the end of the input has not been signalled there is one more way of being
  unfinished: the text so far ends in a top-level `+` or `-`. `-Inf`/`+Inf` are read as a sign
  token followed by the token `Inf`, so what the sign IS depends on the token that follows,
  and the first clause (pieces give what the whole text gives, e.g. `- ` then `Inf`) forces the
  parser to wait for it (`UnfinishedPrefix`). Once the end has been signalled the sign is a
  symbol and the text is finished (`Unfinished` applied to the text with its end mark).

`Unfinished` is a one-pass bracket counter over the tokens the lexer has emitted for the
prefix plus the lexer's literal mode; it knows nothing about the parser.
-/
import ZygoVerif.Model.Parser
namespace ZygoVerif.Spec
open ZygoVerif.Lexer

structure Nest where
  depth : Nat := 0
  inBlock : Bool := false
  inRaw : Bool := false
  pend : Bool := false        -- a top-level prefix operator waits for its operand
  deriving DecidableEq, Repr

def Nest.tok (n : Nest) (t : Token) : Nest :=
  let done (n : Nest) : Nest := if n.depth == 0 then { n with pend := false } else n
  match t.typ with
  | .beginBlockComment => { n with inBlock := true }
  | .endBlockComment => done { n with inBlock := false }
  | .beginBacktickString => { n with inRaw := true }
  | .backtickString => done { n with inRaw := false }
  | .lparen | .lsquare | .lcurly => { n with depth := n.depth + 1 }
  | .rparen | .rsquare | .rcurly => done { n with depth := n.depth - 1 }
  | .quote | .caret | .tilde | .tildeAt => if n.depth == 0 then { n with pend := true } else n
  | .comment => if n.inBlock then n else done n
  | _ => done n

def unfinishedCore (c : LexCore) (emitted : List Token) : Bool :=
  let n := emitted.foldl Nest.tok {}
  n.depth > 0 || n.inBlock || n.inRaw || n.pend || inLiteral c

/-- `Unfinished t`: the text `t` is unfinished (a bracket, literal, raw string or block comment is
open, or a prefix operator lacks its operand). `none` when the lexer refuses `t` (then the text
is simply wrong). -/
def Unfinished (t : List Char) : Option Bool :=
  match feed (.ok LexCore.init) t with
  | .ok c => some (unfinishedCore c c.tokens)
  | .err _ _ => none

/-- the last token so far is a `+`/`-` symbol outside every bracket: the next token decides
whether it is that symbol or the sign of `±Inf` -/
def signPending (emitted : List Token) : Bool :=
  match emitted.getLast? with
  | some tk => tk.typ == .symbol && (tk.str == ['-'] || tk.str == ['+']) &&
      (emitted.foldl Nest.tok {}).depth == 0
  | none => false

/-- `UnfinishedPrefix t`: `t` is an unfinished prefix of a text whose end has not been
signalled yet. -/
def UnfinishedPrefix (t : List Char) : Option Bool :=
  match feed (.ok LexCore.init) t with
  | .ok c => some (unfinishedCore c c.tokens || signPending c.tokens)
  | .err _ _ => none

end ZygoVerif.Spec
