/-
C08 — what counts as "reaching the outside world". Written from the property text
("read or write files, start processes, read or change environment variables, exit the host
process"), independent of how zygomys is built. Core Lean only.

The extractor (extract/ex_callgraph.go) lists EVERY object of another package that package
zygo or cmd/zygo references (functions, methods, interface methods, package-level
variables) with its package path and name; it decides nothing. This file classifies them.
The world is closed: a package that is not named here is `unknown`, and Props/C08.lean
both counts `unknown` as a primitive and demands that there is none — so a new import has
to be classified by a person before the theorems check again.
-/
namespace ZygoVerif.Spec.Prims

inductive Class where
  /-- computes on its arguments and on memory only (trusted: documented behaviour of the
  standard library / of the named third-party package) -/
  | pure
  /-- reads or writes the process's own standard streams or terminal (`fmt.Print*`,
  `os.Stdout`, the line editor): console traffic is not a file, process or environment
  access in the sense of the property -/
  | console
  /-- reads the clock or a random source -/
  | clock
  /-- the outside world: file system, processes, environment, process exit, network,
  dynamic loading, calling a function through reflection -/
  | prim
  /-- nobody has decided yet -/
  | unknown
  deriving DecidableEq, Repr

/-- Packages whose every member is an outside-world primitive (unless excepted below).
(A package that is named nowhere in this file is `unknown`, which the theorems treat like a
primitive, so this list only needs the packages one wants to see called by their name.) -/
def primPackages : List String :=
  ["os", "os/exec", "os/signal", "os/user", "syscall", "io/ioutil", "io/fs", "path/filepath",
   "net", "net/http", "plugin", "log", "runtime/pprof",
   -- time-zone database loader: opens zoneinfo files, reads $ZONEINFO
   "4d63.com/tz"]

/-- Individual members that are primitives although their package is otherwise harmless. -/
def primMembers : List (String × String) :=
  [ -- calling something that no source text mentions
    ("reflect", "Value.Call"), ("reflect", "Value.CallSlice"), ("reflect", "MakeFunc"),
    -- opens zoneinfo files named by its argument, reads $ZONEINFO
    ("time", "LoadLocation"),
    -- may terminate the process (flag.ExitOnError)
    ("flag", "(*FlagSet).Parse"), ("flag", "Parse"),
    ("runtime", "Goexit"), ("runtime", "Breakpoint"), ("runtime/debug", "SetTraceback"),
    ("runtime/debug", "WriteHeapDump"),
    -- file helpers of the msgpack libraries
    ("github.com/tinylib/msgp/msgp", "ReadFile"), ("github.com/tinylib/msgp/msgp", "WriteFile"),
    ("github.com/glycerine/greenpack/msgp", "ReadFile"), ("github.com/glycerine/greenpack/msgp", "WriteFile") ]

/-- Members of primitive packages that only touch the standard streams. -/
def consoleMembers : List (String × String) :=
  [("os", "Stdout"), ("os", "Stderr"), ("os", "Stdin")]

def consolePackages : List String :=
  ["fmt", "github.com/glycerine/liner", "github.com/shurcooL/go-goon"]

def clockPackages : List String := ["time", "math/rand"]

def purePackages : List String :=
  [ -- what zygomys uses today (first: the kernel compares strings one by one)
   "universe", "bufio", "bytes", "encoding/base64", "encoding/binary", "encoding/gob", "errors",
   "flag", "hash", "hash/fnv", "io", "iter", "math", "path", "reflect", "regexp", "runtime",
   "runtime/debug", "sort", "strconv", "strings", "sync", "unicode", "unicode/utf8",
   -- third party, trusted to encode/decode/hash in memory or on the reader/writer they are given
   "github.com/glycerine/blake2b", "github.com/ugorji/go/codec", "github.com/tinylib/msgp/msgp",
   "github.com/glycerine/greenpack/msgp",
   -- further standard-library packages that only compute (so that a harmless new import does
   -- not raise an alarm)
   "slices", "maps", "cmp", "math/bits", "math/big", "math/cmplx", "encoding", "encoding/json",
   "encoding/hex", "container/list", "container/heap", "sync/atomic", "unicode/utf16", "context",
   "hash/crc32", "hash/maphash", "crypto/sha256", "crypto/sha1", "crypto/md5", "text/tabwriter",
   "html"]

/-- class of a package as a whole -/
def pkgClass (pkg : String) : Class :=
  if pkg ∈ primPackages then .prim
  else if pkg ∈ consolePackages then .console
  else if pkg ∈ clockPackages then .clock
  else if pkg ∈ purePackages then .pure
  else .unknown

/-- The classification: member rules first, then the package. -/
def classify (pkg name : String) : Class :=
  if (pkg, name) ∈ primMembers then .prim
  else if (pkg, name) ∈ consoleMembers then .console
  else pkgClass pkg

def isForbiddenClass : Class → Bool
  | .prim | .unknown => true
  | _ => false

/-- what the reachability theorems forbid: primitives, and anything not yet classified -/
def forbidden (pkg name : String) : Bool := isForbiddenClass (classify pkg name)

/-- does any member rule mention this package? (when not, `classify` is `pkgClass`) -/
def hasMemberRules (pkg : String) : Bool :=
  primMembers.any (·.1 == pkg) || consoleMembers.any (·.1 == pkg)

theorem not_mem_of_no_rule {l : List (String × String)} {pkg name : String}
    (h : l.any (·.1 == pkg) = false) : (pkg, name) ∉ l := by
  intro hm
  have : l.any (·.1 == pkg) = true := List.any_eq_true.mpr ⟨(pkg, name), hm, by simp⟩
  rw [h] at this
  cases this

theorem classify_eq_pkgClass {pkg name : String} (h : hasMemberRules pkg = false) :
    classify pkg name = pkgClass pkg := by
  simp only [hasMemberRules, Bool.or_eq_false_iff] at h
  simp only [classify, not_mem_of_no_rule h.1, not_mem_of_no_rule h.2, if_false]

/-! ### Configurations and the edges that exist in them -/

inductive Config where
  /-- `NewZlispSandbox()` and nothing else -/
  | bare
  /-- `NewZlispSandbox()` followed by `StandardSetup()` -/
  | std
  /-- the command line tool started with `-sandbox` -/
  | cli
  deriving DecidableEq, Repr

/-- Edge labels (bit set) computed by the extractor from enclosing `if` conditions:
1 = only when the interpreter's sandbox flag is false, 2 = only when it is true,
4 = only when `cfg.Sandboxed` is false, 8 = only when it is true,
16 = reference to an external object made directly by a wrapper function of the command
line tool (host behaviour, judged separately against `hostAllowed`).
In every sandbox configuration the interpreter's flag is true (flag protocol theorem), so
label-1 edges do not exist; under `-sandbox` `cfg.Sandboxed` is true as well, and the
wrapper's own external references are not script behaviour. -/
def keepEdge : Config → Nat → Bool
  | .cli, lab => lab &&& (1 ||| 4 ||| 16) == 0
  | _, lab => lab &&& 1 == 0

/-- Direct uses of primitives by the command line wrapper that are the host's own doing
under `-sandbox`: (function, package, member). Everything else a wrapper does directly to
the outside world while `cfg.Sandboxed` is true is unexpected. -/
def hostAllowed : List (String × String × String) :=
  [ -- end of input ends the process
    ("zygo.Repl", "os", "Exit"),
    -- the script file named on the command line; -exitonfail
    ("zygo.runScript", "os", "Open"), ("zygo.runScript", "os", "(*File).Close"),
    ("zygo.runScript", "os", "Exit"),
    -- -cpuprofile / -memprofile files, -c exits after the command, error exits
    ("zygo.ReplMain", "os", "Create"), ("zygo.ReplMain", "os", "(*File).Close"),
    ("zygo.ReplMain", "os", "Exit"),
    ("zygo.ReplMain", "runtime/pprof", "StartCPUProfile"), ("zygo.ReplMain", "runtime/pprof", "Lookup"),
    ("zygo.ReplMain", "runtime/pprof", "(*Profile).WriteTo"),
    ("zygo.ReplMain$1", "runtime/pprof", "StopCPUProfile"), ("zygo.ReplMain$1", "os", "(*File).Close"),
    -- command line parsing, usage message
    ("main.main", "os", "Args"), ("main.main", "flag", "(*FlagSet).Parse"), ("main.usage", "os", "Exit") ]

/-- REPL dot commands that act on the host (change directory, leave the REPL): they must
sit under `!cfg.Sandboxed`. Other dot commands only print interpreter state. -/
def hostOnlyDotCommands : List String := [".cd", ".quit"]

/-- Functions that start-up code CALLS and that could create function values, judged by
hand not to leave any behind: liner's `init` calls `AllBuiltinFunctions()` only to range
over the KEYS of the returned map (completion keywords); the map itself is dropped. -/
def startupDiscards : List String := ["zygo.AllBuiltinFunctions"]

/-- The only places that use package unsafe: a string→[]byte view and reading an unexported
struct field by address. Neither can fabricate a function value. -/
def knownUnsafe : List String := ["zygo.UnsafeStringToByteSlice", "zygo.unexportHelper$1"]

/-- Bool-valued functions that may decide a refusal gate although a constant-name lookup is
reachable from them (a script can bind names, so what a name resolves to is under the script's
control). None today. -/
def allowedGatePredicates : List String := []

/-- Where the sandbox is enforced by a run-time test of the interpreter's flag rather than by
leaving a function out of a table: the `include` special form (its generator function must
test the flag FIELD while it is reachable in a sandbox) and the `sys` / `import` builders
(StandardSetup may register them only under `!flag`). -/
def flagGatedForms : List String := ["include"]
def flagGatedBindings : List String := ["sys", "import"]

end ZygoVerif.Spec.Prims
