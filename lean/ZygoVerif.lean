-- Root of the `ZygoVerif` library: everything that `lake build` must check.
import ZygoVerif.Model.Num
import ZygoVerif.Model.Legacy
import ZygoVerif.Spec.MathOrder
import ZygoVerif.Props.C07
