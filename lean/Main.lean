/-
`zydrv`: reads one op per line on stdin (`<channel> <tokens…>`), runs the Lean model and
the Lean spec, prints one answer line per op. Core-only (links without Mathlib).
-/
import ZygoVerif.Driver.Proto
import ZygoVerif.Driver.Num
open ZygoVerif

def dispatch (line : String) : String :=
  match Proto.splitLine line with
  | "num" :: rest => Driver.Num.handle rest
  | _ => "bad-channel\t-"

partial def loop (h : IO.FS.Stream) (out : IO.FS.Stream) : IO Unit := do
  let line ← h.getLine
  if line.isEmpty then return ()
  out.putStrLn (dispatch line)
  loop h out

def main : IO Unit := do
  let out ← IO.getStdout
  loop (← IO.getStdin) out
  out.flush
